(* C05 — graceful shutdown drains all submitted work and leaves nothing behind.  Subject: Model/Pool.v (lists regenerated from the
   source).  "Leaves nothing behind" in terms of descriptors / threads / semaphores is C20 (Model/Ledger.v). *)
From Coq Require Import List Arith Bool.
From LokyV Require Import Lib.LedgerLib Lib.PoolLib Gen.Ledger Gen.Pool Model.Pool Proofs.PoolThm.
From LokyV Require Model.Wake Proofs.WakeThm.
From LokyV Require Lib.WorkerLib Gen.Worker Proofs.WorkerThm.
From LokyV Require Model.SentinelLoop Proofs.SentinelLoopThm.
Import ListNotations.

(* no history without kill_workers=True ever fails a future with ShutdownExecutorError *)
Theorem C05_graceful_never_drops : forall es n, never_kill es = true -> failS (run es (pool0 n)) = 0.
Proof. exact graceful_never_drops. Qed.
Print Assumptions C05_graceful_never_drops.

(* ... and when the manager has ended on a pool that never broke, every accepted task was delivered, no worker is registered and
   nothing more can be accepted *)
Theorem C05_graceful_delivers_everything :
  forall es n, never_kill es = true -> let p := run es (pool0 n) in
    mgr p = MDone -> broken p = false -> ok p = submitted p /\ procs p = [] /\ closed p = true.
Proof. exact graceful_delivers_everything. Qed.
Print Assumptions C05_graceful_delivers_everything.

Theorem C05_submit_after_shutdown_raises :
  forall p, user p = true -> sub p = None -> shut p = true ->
    pending (step p Submit) = pending p /\ refused (step p Submit) = S (refused p) /\ submitted (step p Submit) = submitted p.
Proof. exact shut_down_pool_refuses. Qed.
Print Assumptions C05_submit_after_shutdown_raises.

(* the manager starts joining only when nothing is pending (the check sits between the two generated lists) and then sends one
   sentinel per worker before joining them all *)
Theorem C05_structure :
  run_normal_exit = [FlagExecutorShuttingDown; JoinInternals] /\ hd_error joining_ops = Some ShutdownWorkers
  /\ last joining_ops ClearPending = JoinAllProcesses /\ clean_exit_pops_releases_joins = true
  /\ shutdown_joins_manager_when_wait = true /\ shutdown_flags_then_wakes = true
  /\ shutdown_wakes_joins_iff_wait_and_forgets_only_a_joined_manager = true.
Proof. repeat split; reflexivity. Qed.
Print Assumptions C05_structure.

(* shutdown(wait=True) returns: on Model/Wake.v a manager that was asked to stop always has a step to make until it has left, once
   the dispatched jobs have finished -- whatever was submitted, cancelled or completed before (H11 is the failing case on the
   pinned source); and when it leaves its table is empty *)
Theorem C05_shutting_down_manager_is_never_stuck :
  forall es, let s := Wake.run es Wake.ws0 in
    Wake.shut s = true -> Wake.ph s <> Wake.MExit -> Wake.nr s = 0 -> Wake.step s Wake.Mgr <> s.
Proof. exact WakeThm.shutting_down_manager_is_never_stuck. Qed.
Print Assumptions C05_shutting_down_manager_is_never_stuck.

Theorem C05_manager_leaves_an_empty_table :
  forall es, let s := Wake.run es Wake.ws0 in Wake.ph s = Wake.MExit -> Wake.in_table s = 0 /\ Wake.shut s = true.
Proof. exact WakeThm.manager_leaves_an_empty_table. Qed.
Print Assumptions C05_manager_leaves_an_empty_table.

(* inside the worker (Gen/Worker.v): a sentinel makes it leave through the hand-shake: pid announced once, after the result of its
   last task, bounded wait for the exit lock, nested executors told, clean return *)
Theorem C05_worker_leaves_through_the_handshake :
  forall e, WorkerLib.get e = WorkerLib.GSentinel ->
    WorkerLib.wfin (WorkerThm.it e) = WorkerLib.FReturn /\ WorkerLib.count WorkerLib.is_pid (WorkerLib.acts (WorkerThm.it e)) = 1 /\
    WorkerLib.before WorkerLib.is_result WorkerLib.is_pid (WorkerLib.acts (WorkerThm.it e)) = true /\
    ~ In (WorkerLib.AWaitExit false) (WorkerLib.acts (WorkerThm.it e)).
Proof.
  intros e G. pose proof (WorkerThm.leaves_on_sentinel e G) as R. destruct (WorkerThm.clean_exit_iff_announced e) as (A & _ & C).
  repeat split; auto. apply WorkerThm.handshake_wait_is_bounded. rewrite G. destruct (WorkerLib.psutil e && WorkerLib.leak e); reflexivity.
Qed.
Print Assumptions C05_worker_leaves_through_the_handshake.

(* ---- interpreter exit (process_executor._python_exit, translated statement by statement) ----
   every started manager thread is registered with its shutdown lock and wake-up pipe, and the hook is registered to run before the
   threads are joined (generated fact); the hook sets the global flag FIRST (so that a manager woken at any later point reads it in
   is_shutting_down and submit() refuses new work), takes the snapshot of the registered managers AFTER that, wakes every one of them
   -- each under its own shutdown lock, which is what _ThreadWakeup.close() takes -- and only THEN joins them: a manager that is
   woken with the flag set drains its work and leaves (C05_shutting_down_manager_is_never_stuck), so the joins return *)
Theorem C05_interpreter_exit_order :
  manager_thread_is_registered_for_interpreter_exit = true /\
  xbefore XSetGlobalShutdown XSnapshotManagers python_exit_prog = true /\
  xbefore XSnapshotManagers XWakeEachUnderItsShutdownLock python_exit_prog = true /\
  xbefore XWakeEachUnderItsShutdownLock XJoinEachUnderTheGlobalLock python_exit_prog = true /\
  length python_exit_prog = 4.
Proof. repeat split; reflexivity. Qed.
Print Assumptions C05_interpreter_exit_order.

(* an executor that is garbage-collected without shutdown(): the manager thread holds only a weak reference to it (so it CAN be
   collected while work is pending), and the weak reference's callback wakes the manager under the shutdown lock; is_shutting_down
   then reads "executor is None" (is_shutting_down_expr) and the manager drains and leaves as after a graceful shutdown *)
Theorem C05_collected_executor_is_shut_down_gracefully :
  manager_thread_holds_only_a_weak_reference_to_its_executor = true /\
  collected_executor_wakes_the_manager_under_the_shutdown_lock = true.
Proof. split; reflexivity. Qed.
Print Assumptions C05_collected_executor_is_shut_down_gracefully.

(* ---- the sentinels of a graceful shutdown (Model/SentinelLoop.v; shutdown_workers' loop and its three constants are read off the
   source) ----
   the loop posts with put_nowait -- it cannot block -- one sentinel per worker it found registered; for every behaviour of the queue
   (full or not at each attempt) and of the workers (how many are alive at each test): it ends within 3 n + 3 K + 6 environment answers;
   it never posts more than n; when it ends normally every sentinel was posted or no child was alive any more; it gives up (re-raises
   queue.Full) only after the queue was full K + 1 times, K = 47 being the number of multiplications by 1.2 that take cooldown_time
   from 0.001 s beyond 5 s (computed from the generated constants) *)
Theorem C05_sentinel_loop :
  sentinel_loop_posts_without_blocking_one_per_registered_worker = true /\ children_alive_counts_the_registered_workers = true /\
  SentinelLoopThm.give_up_after = Some 47 /\
  (forall n K es, 3 * n + 3 * K + 6 <= length es -> SentinelLoop.ended (SentinelLoop.run n K es SentinelLoop.sl0) = true) /\
  (forall n K es, let s := SentinelLoop.run n K es SentinelLoop.sl0 in
     SentinelLoop.sent s <= n /\
     (SentinelLoop.ph s = SentinelLoop.Done -> SentinelLoop.sent s = n \/ SentinelLoop.saw_none_alive s = true) /\
     (SentinelLoop.ph s = SentinelLoop.Raised -> SentinelLoop.grown s = K)).
Proof.
  split; [reflexivity|]. split; [reflexivity|]. split; [exact SentinelLoopThm.give_up_after_value|].
  split; [exact SentinelLoopThm.loop_ends | exact SentinelLoopThm.loop_outcome].
Qed.
Print Assumptions C05_sentinel_loop.
