(* C19 — nested parallelism depth is bounded exactly at LOKY_MAX_DEPTH.
   Subject: Gen/Depth.v, regenerated from /repo/loky/process_executor.py on every run. *)
From Coq Require Import List String Ascii ZArith Bool.
From LokyV Require Import Lib.PyLib Gen.Depth Char.DepthChar Model.Tree Proofs.TreeProps.
Import ListNotations.
Open Scope string_scope.
Open Scope Z_scope.

(* the translated _check_max_depth raises LokyRecursionError exactly when ... *)
Theorem C19_check :
  forall (method : string) (MAX d : Z) (eff0 : list eff),
    check_max_depth method MAX d eff0 =
    (if (String.eqb method "fork" && (d >? 0)) || ((0 <? MAX) && (d + 1 >? MAX))
     then Raise LokyRecursionError else Norm, eff0).
Proof. exact check_max_depth_char. Qed.
Print Assumptions C19_check.

(* creating an executor in a process at depth d succeeds iff (not fork, or d = 0) and (unlimited or d < MAX) *)
Theorem C19_iff :
  forall (MAX : Z) (t : tree) (p : nat) (m : string) (pr : proc),
    nth_error (procs t) p = Some pr -> 0 <= p_depth pr ->
    (snd (step MAX t (Create p m)) = Done
     <-> (m <> "fork" \/ p_depth pr = 0) /\ (MAX <= 0 \/ p_depth pr < MAX)).
Proof. exact create_iff. Qed.
Print Assumptions C19_iff.

(* exceeding the limit raises instead of spawning: the tree is unchanged *)
Theorem C19_refused_spawns_nothing :
  forall (MAX : Z) (t : tree) (p : nat) (m : string),
    snd (step MAX t (Create p m)) = RecursionError -> fst (step MAX t (Create p m)) = t.
Proof. exact create_refused_frame. Qed.
Print Assumptions C19_refused_spawns_nothing.

(* in every tree reachable by ANY history of creations and spawns (initial fill, respawn, resize,
   reuse), every worker's depth is exactly one more than that of the process that created its
   executor, the root is at depth 0, and executors exist only where the check passed *)
Theorem C19_depth_invariant :
  forall (MAX : Z) (ops : list op), Inv MAX (run MAX ops).
Proof. exact Inv_run. Qed.
Print Assumptions C19_depth_invariant.

(* hence no process ever runs deeper than MAX (when MAX >= 1) *)
Theorem C19_bound :
  forall (MAX : Z) (ops : list op) (i : nat) (pr : proc),
    1 <= MAX -> nth_error (procs (run MAX ops)) i = Some pr -> p_depth pr <= MAX.
Proof. exact depth_bound. Qed.
Print Assumptions C19_bound.

(* the depth shipped to a worker, and the limit read from the environment *)
Theorem C19_child_depth : forall (d : Z) (eff0 : list eff), child_depth d eff0 = (Ret (d + 1), eff0).
Proof. exact child_depth_char. Qed.
Print Assumptions C19_child_depth.
Theorem C19_max_depth_env :
  forall (env : dict string) (eff0 : list eff),
    max_depth env eff0 =
    (match dget env "LOKY_MAX_DEPTH" with
     | Some s => match py_int_of_str s with Ok z => Ret z | Err e => Raise e end
     | None => Ret 10
     end, eff0).
Proof. exact max_depth_char. Qed.
Print Assumptions C19_max_depth_env.
(* structural facts read off the source on this run: the worker installs the shipped depth before
   its loop and nothing else writes it; __init__ runs the check before any queue/process creation *)
Theorem C19_structure : worker_installs_depth = true /\ init_checks_depth_first = true.
Proof. exact (conj worker_installs_depth_ok init_checks_depth_first_ok). Qed.
Print Assumptions C19_structure.

Example C19_example :
  let t := run 2 [Create 0 "loky"; Spawn 0; Create 1 "loky"; Spawn 1; Create 2 "loky"; Create 1 "fork"] in
  map p_depth (procs t) = [0; 1; 2] /\ List.length (execs t) = 2%nat
  /\ snd (step 2 t (Create 2 "loky")) = RecursionError /\ snd (step 2 t (Create 1 "fork")) = RecursionError
  /\ snd (step 0 t (Create 2 "spawn")) = Done.
Proof. vm_compute. repeat split; reflexivity. Qed.
