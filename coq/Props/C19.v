(* C19 — nested parallelism depth is bounded exactly at LOKY_MAX_DEPTH.
   Subject: Gen/Depth.v, regenerated from /repo/loky/process_executor.py on every run. *)
From Coq Require Import List String Ascii ZArith Bool.
From LokyV Require Import Lib.PyLib Gen.Depth Char.DepthChar Model.Tree Proofs.TreeProps.
Import ListNotations.
Open Scope string_scope.
Open Scope Z_scope.

(* the translated _check_max_depth raises LokyRecursionError exactly when ... *)
Theorem C19_check :
  forall (method : string) (MAX d : Z) (eff0 : list eff),
    check_max_depth method MAX d eff0 =
    (if (String.eqb method "fork" && (d >? 0)) || ((0 <? MAX) && (d + 1 >? MAX))
     then Raise LokyRecursionError else Norm, eff0).
Proof. exact check_max_depth_char. Qed.
Print Assumptions C19_check.

(* creating an executor in a process that has entered _process_worker (or in the root) succeeds iff (not fork, or depth 0) and
   (unlimited or depth < MAX), where depth is the REAL nesting depth: the variable the check reads equals it from the first
   statement of _process_worker on, initializer included (generated fact worker_installs_depth_before_user_code; false on the
   pinned source: finding D1, fixed) *)
Theorem C19_iff :
  forall (MAX : Z) (ops : list op) (p : nat) (m : string) (pr : proc),
    let t := run MAX ops in
    nth_error (procs t) p = Some pr -> p_phase pr <> Loading ->
    (snd (step MAX t (Create p m)) = Done
     <-> (m <> "fork" \/ p_real pr = 0) /\ (MAX <= 0 \/ p_real pr < MAX)).
Proof. intros MAX ops p m pr t. apply create_iff. apply Inv_run. Qed.
Print Assumptions C19_iff.

(* exceeding the limit raises instead of spawning: the tree is unchanged *)
Theorem C19_refused_spawns_nothing :
  forall (MAX : Z) (t : tree) (p : nat) (m : string),
    snd (step MAX t (Create p m)) = RecursionError -> fst (step MAX t (Create p m)) = t.
Proof. exact create_refused_frame. Qed.
Print Assumptions C19_refused_spawns_nothing.

(* in every tree reachable by ANY history of creations, spawns (initial fill, respawn, resize, reuse) and worker start-ups: real
   depths are parent + 1 from a root at 0, the depth shipped to a worker is its real depth, the variable is 0 while a worker is
   loading and its real depth afterwards, and executors constructed outside the loading phase exist only where the check on the
   real depth passed *)
Theorem C19_depth_invariant :
  forall (MAX : Z) (ops : list op), Inv MAX (run MAX ops).
Proof. exact Inv_run. Qed.
Print Assumptions C19_depth_invariant.

(* the depth a worker sees is exactly one more than that of the process that created its executor *)
Theorem C19_worker_sees_parent_plus_one :
  forall (MAX : Z) (ops : list op) (i : nat) (pr : proc) (q : nat),
    nth_error (procs (run MAX ops)) i = Some pr -> p_parent pr = Some q -> p_phase pr <> Loading ->
    exists pq, nth_error (procs (run MAX ops)) q = Some pq /\ p_var pr = p_real pq + 1 /\ p_real pr = p_real pq + 1.
Proof. exact worker_sees_parent_plus_one. Qed.
Print Assumptions C19_worker_sees_parent_plus_one.

(* hence no process ever runs deeper than MAX (when MAX >= 1) -- unless some executor was constructed by a worker that was still
   unpickling its own arguments.  The full statement (no exception) is false of the code: C19_bound_refuted_while_loading is the
   witness, reproduced on the real code (known finding D2). *)
Theorem C19_bound_partial :
  forall (MAX : Z) (ops : list op) (i : nat) (pr : proc),
    1 <= MAX -> nth_error (procs (run MAX ops)) i = Some pr ->
    p_real pr <= MAX \/ some_exec_made_while_loading (run MAX ops).
Proof. exact depth_bound. Qed.
Print Assumptions C19_bound_partial.

Theorem C19_bound_refuted_while_loading :
  exists (ops : list op) (i : nat) (pr : proc), nth_error (procs (run 1 ops)) i = Some pr /\ p_real pr > 1.
Proof.
  exists [Create 0 "loky"; Spawn 0; Create 1 "loky"; Begin 1; Install 1; Spawn 1], 2%nat.
  eexists. split; [vm_compute; reflexivity|]. vm_compute. reflexivity.
Qed.
Print Assumptions C19_bound_refuted_while_loading.

(* the depth shipped to a worker, and the limit read from the environment *)
Theorem C19_child_depth : forall (d : Z) (eff0 : list eff), child_depth d eff0 = (Ret (d + 1), eff0).
Proof. exact child_depth_char. Qed.
Print Assumptions C19_child_depth.
Theorem C19_max_depth_env :
  forall (env : dict string) (eff0 : list eff),
    max_depth env eff0 =
    (match dget env "LOKY_MAX_DEPTH" with
     | Some s => match py_int_of_str s with Ok z => Ret z | Err e => Raise e end
     | None => Ret 10
     end, eff0).
Proof. exact max_depth_char. Qed.
Print Assumptions C19_max_depth_env.
(* structural facts read off the source on this run: the worker installs the shipped depth before
   its loop and nothing else writes it; __init__ runs the check before any queue/process creation *)
Theorem C19_structure :
  worker_installs_depth = true /\ init_checks_depth_first = true /\
  worker_installs_depth_before_user_code = true /\ bootstrapping_process_cannot_spawn = true.
Proof. exact (conj worker_installs_depth_ok (conj init_checks_depth_first_ok (conj early_ok guard_ok))). Qed.
Print Assumptions C19_structure.

Example C19_example :
  let t := run 2 [Create 0 "loky"; Spawn 0; Begin 1; Install 1; Create 1 "loky"; Spawn 1; Begin 2; Create 2 "loky"; Install 2; Create 1 "fork"] in
  map p_real (procs t) = [0; 1; 2] /\ map p_var (procs t) = [0; 1; 2] /\ List.length (execs t) = 2%nat
  /\ snd (step 2 t (Create 2 "loky")) = RecursionError /\ snd (step 2 t (Create 1 "fork")) = RecursionError
  /\ snd (step 0 t (Create 2 "spawn")) = Done.
Proof. vm_compute. repeat split; reflexivity. Qed.
