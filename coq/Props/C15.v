(* C15 — serialisation customisation is scoped to where it was requested and is faithful.
   Subject: Gen/Reduction.v (shape-directed translation of loky/backend/reduction.py, with aliasing explicit,
   plus structural facts from queues.py / process_executor.py), regenerated on every run. *)
From Coq Require Import List Arith Bool String.
From LokyV Require Import Lib.PyLib Lib.TblLib Gen.Reduction Proofs.ReductionThm.
Import ListNotations.

(* creating one pickler: fresh table, nothing allocated before is touched, the view is class ⊕ loky ⊕ reducers *)
Theorem C15_pickler_init_scoped :
  forall H cls copyreg loky R H' r,
    allocated H copyreg -> allocated H loky -> (forall c, cls = Some c -> allocated H c) ->
    gen_pickler_init H cls copyreg loky R = (H', r) ->
    ~ allocated H r
    /\ (forall r', allocated H r' -> hget H' r' = hget H r' /\ allocated H' r')
    /\ (forall k, tget (hget H' r) k =
                  match tget (rev R) k with
                  | Some v => Some v
                  | None => match tget (hget H loky) k with
                            | Some v => Some v
                            | None => tget (hget H (match cls with Some c => c | None => copyreg end)) k
                            end
                  end).
Proof. exact pickler_init_scoped. Qed.
Print Assumptions C15_pickler_init_scoped.

(* for every sequence of pickler creations with arbitrary reducer maps, every table that existed before
   (copyreg.dispatch_table, the pickler class's, loky's _dispatch_table, other picklers') is unchanged *)
Theorem C15_noninterference :
  forall Rs H cls copyreg loky,
    allocated H copyreg -> allocated H loky -> (forall c, cls = Some c -> allocated H c) ->
    forall r', allocated H r' -> hget (create_all H cls copyreg loky Rs) r' = hget H r'.
Proof. exact noninterference. Qed.
Print Assumptions C15_noninterference.

(* and a pickler created later with reducers R' sees class ⊕ loky ⊕ R' only *)
Theorem C15_later_pickler_view :
  forall Rs H cls copyreg loky R' H' r,
    allocated H copyreg -> allocated H loky -> (forall c, cls = Some c -> allocated H c) ->
    gen_pickler_init (create_all H cls copyreg loky Rs) cls copyreg loky R' = (H', r) ->
    forall k, tget (hget H' r) k =
              match tget (rev R') k with
              | Some v => Some v
              | None => match tget (hget H loky) k with
                        | Some v => Some v
                        | None => tget (hget H (match cls with Some c => c | None => copyreg end)) k
                        end
              end.
Proof. exact later_pickler_view. Qed.
Print Assumptions C15_later_pickler_view.

Theorem C15_partial_roundtrip :
  forall (F A K : Type) (p : F * list A * list K), gen_rebuild_partial (gen_reduce_partial p) = p.
Proof. exact @partial_roundtrip. Qed.
Print Assumptions C15_partial_roundtrip.

Theorem C15_pickler_name_normalisation :
  forall arg env,
    gen_normalize_name arg env =
    match arg with
    | None => if String.eqb env "" then "cloudpickle"%string else env
    | Some a => if String.eqb a "" then "cloudpickle"%string else a
    end.
Proof. exact normalize_name_spec. Qed.
Print Assumptions C15_pickler_name_normalisation.

(* where reducers and the pickler name are used (re-extracted from the sources on this run) *)
Theorem C15_scope_structure :
  queues_use_their_own_reducers = true /\ result_reducers_default_to_job_reducers = true
  /\ call_queue_gets_job_reducers_result_queue_gets_result_reducers = true
  /\ call_item_records_and_restores_pickler_name = true.
Proof. exact structure_facts. Qed.
Print Assumptions C15_scope_structure.

Example C15_example :
  let H := [(0, [(1, 10)]); (1, [(2, 20)])] in           (* copyreg table 0, loky table 1 *)
  let '(H', r) := gen_pickler_init H None 0 1 [(1, 11); (3, 30)] in
  r = 2 /\ hget H' 0 = [(1, 10)] /\ hget H' 1 = [(2, 20)]
  /\ tget (hget H' r) 1 = Some 11 /\ tget (hget H' r) 2 = Some 20 /\ tget (hget H' r) 3 = Some 30.
Proof. vm_compute. repeat split; reflexivity. Qed.

(* the reducers a queue was created with reach the worker: every attribute Queue / SimpleQueue.__getstate__ ships (generated lists;
   `_reducers` among those of the result queue, the one a worker writes to) is installed unchanged by __setstate__ in the worker's copy *)
Theorem C15_reducers_travel_with_the_queue : forall (V : Type),
  queue_state_installed = queue_state_shipped /\ simple_queue_state_installed = simple_queue_state_shipped
  /\ In "_reducers"%string simple_queue_state_shipped
  /\ (forall (o o0 : qobj V) f, In f queue_state_shipped -> install V queue_state_installed (ship V queue_state_shipped o) o0 f = o f)
  /\ (forall (o o0 : qobj V) f, In f simple_queue_state_shipped -> install V simple_queue_state_installed (ship V simple_queue_state_shipped o) o0 f = o f).
Proof. exact reducers_travel_with_the_queue. Qed.
Print Assumptions C15_reducers_travel_with_the_queue.
