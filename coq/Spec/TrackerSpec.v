(* Hand-written typed functional specification of resource_tracker.main.
   Char/TrackerChar.v proves the generated code (Gen/Tracker.v) equal to it. *)
From Coq Require Import List String Ascii ZArith Bool.
From LokyV Require Import Lib.PyLib.
Import ListNotations.
Open Scope string_scope.

Definition registry := dict (dict Z).

Section Spec.
  Variable keys : list string.         (* the known resource types, in table order *)

  Definition known (t : string) : bool := existsb (String.eqb t) keys.

  (* line -> (cmd, name, rtype) exactly as the source computes them *)
  Definition parse3 (line : string) : res (string * string * string) :=
    rbind (decode_ascii (strip line)) (fun s =>
      let sp := split_chr ":"%char s in
      rbind (py_index sp 0%Z) (fun cmd =>
        rbind (py_index sp (-1)%Z) (fun rtype =>
          Ok (cmd, join ":" (py_slice sp 1%Z (-1)%Z), rtype)))).

  (* one external cleanup call: logged, may raise (the exception is swallowed by the caller) *)
  Definition do_cleanup (effs : list eff) (t n : string) : list eff :=
    (effs ++ [ECall t [n]])%list.

  (* effect of one request line inside the try-block: (exception escaping the block, state) *)
  Definition handle (reg : registry) (effs : list eff) (line : string)
    : option exn * registry * list eff :=
    match parse3 line with
    | Err e => (Some e, reg, effs)
    | Ok (cmd, name, rtype) =>
      if String.eqb cmd "PROBE" then (None, reg, effs)
      else if negb (known rtype) then (Some ValueError, reg, effs)
      else if String.eqb cmd "REGISTER" then
        match dget reg rtype with
        | None => (Some KeyError, reg, effs)
        | Some inner =>
          match dget inner name with
          | None => (None, dset reg rtype (dset inner name 1%Z), effs)
          | Some c => (None, dset reg rtype (dset inner name (c + 1)%Z), effs)
          end
        end
      else if String.eqb cmd "UNREGISTER" then
        match dget reg rtype with
        | None => (Some KeyError, reg, effs)
        | Some inner =>
          if dmem inner name then (None, dset reg rtype (dremove inner name), effs)
          else (Some KeyError, reg, effs)
        end
      else if String.eqb cmd "MAYBE_UNLINK" then
        match dget reg rtype with
        | None => (Some KeyError, reg, effs)
        | Some inner =>
          match dget inner name with
          | None => (Some KeyError, reg, effs)
          | Some c =>
            let inner' := dset inner name (c - 1)%Z in
            let reg' := dset reg rtype inner' in
            if (c - 1 =? 0)%Z
            then (None, dset reg' rtype (dremove inner' name), do_cleanup effs rtype name)
            else (None, reg', effs)
          end
        end
      else (Some RuntimeError, reg, effs)
    end.

  (* the per-line exception barrier: report and go on *)
  Definition step_line (st : registry * list eff) (line : string) : registry * list eff :=
    match handle (fst st) (snd st) line with
    | (None, reg, effs) => (reg, effs)
    | (Some _, reg, effs) => (reg, (effs ++ [EReport])%list)
    end.

  (* end-of-life sweep of one type: every still-registered name, in insertion order *)
  Definition sweep_type (effs : list eff) (t : string) (inner : dict Z) : list eff :=
    fold_left (fun e n => if known t then do_cleanup e t n else e) (dkeys inner) effs.

  Definition sweep (reg : registry) (effs : list eff) : list eff :=
    let effs1 :=
      fold_left (fun e (kv : string * dict Z) =>
                   if String.eqb (fst kv) "folder" then e else sweep_type e (fst kv) (snd kv))
                reg effs in
    match dget reg "folder" with
    | Some inner => sweep_type effs1 "folder" inner
    | None => effs1
    end.

  Definition prologue : list eff :=
    [ECall "signal.signal" ["SIGINT"; "SIG_IGN"];
     ECall "signal.signal" ["SIGTERM"; "SIG_IGN"];
     ECall "signal.pthread_sigmask" ["SIG_UNBLOCK"; "_IGNORED_SIGNALS"]].

  Definition init_registry : registry := map (fun k => (k, [])) keys.

  Definition main_spec (lines : list string) (effs0 : list eff) : list eff :=
    let st := fold_left step_line lines (init_registry, (effs0 ++ prologue)%list) in
    sweep (fst st) (snd st).
End Spec.
