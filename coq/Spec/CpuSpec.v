(* Hand-written typed functional specification of loky.backend.context.cpu_count and helpers.
   Char/CpuChar.v proves the generated code (Gen/Cpu.v) equal to it. *)
From Coq Require Import List String Ascii ZArith Bool.
From LokyV Require Import Lib.PyLib Lib.CpuCfg.
Import ListNotations.
Open Scope string_scope.

Definition V2 := "/sys/fs/cgroup/cpu.max".
Definition V1Q := "/sys/fs/cgroup/cpu/cpu.cfs_quota_us".
Definition V1P := "/sys/fs/cgroup/cpu/cpu.cfs_period_us".
Definition W_AFF := ECall "warnings.warn" ["Failed to inspect CPU af"].
Definition W_PHYS := ECall "warnings.warn" ["Could not find the numbe"].
Definition NF := DStr "not found".

Definition ctl_of {A} (r : res A) : ctl A := match r with Ok v => Ret v | Err e => Raise e end.

Section S.
Variable cfg : cpu_cfg.

Definition os_count : Z := opt_int_or (c_os_cpu_count cfg) 1.
Definition env_absent : bool :=
  match dget (c_env cfg) "LOKY_MAX_CPU_COUNT" with None => true | Some _ => false end.

(* (result, "could not inspect affinity" warning emitted) *)
Definition affinity_spec (os : Z) : res Z * bool :=
  match c_affinity cfg with
  | Ok n => (Ok n, false)
  | Err e =>
    if exn_isa e NotImplementedError || false then
      match c_psutil_import cfg with
      | Some e' => if exn_isa e' ImportError || false then (Ok os, env_absent) else (Err e', false)
      | None => if c_psutil_has_affinity cfg then (Ok (c_psutil_affinity cfg), false) else (Ok os, false)
      end
    else (Err e, false)
  end.

(* the quota and period as the code reads them *)
Definition cgroup_strings : res (dyn * dyn) :=
  if dmem (c_fs cfg) V2 then
    rbind (fs_read (c_fs cfg) V2) (fun s =>
      rbind (unpack2 (split_ws (strip s))) (fun qp => Ok (DStr (fst qp), DStr (snd qp))))
  else if dmem (c_fs cfg) V1Q && dmem (c_fs cfg) V1P then
    rbind (fs_read (c_fs cfg) V1Q) (fun q =>
      rbind (fs_read (c_fs cfg) V1P) (fun p => Ok (DStr (strip q), DStr (strip p))))
  else Ok (DStr "max", DInt 100000).

Definition cgroup_spec (os : Z) : res Z :=
  rbind cgroup_strings (fun qp =>
    if dyn_eqb (fst qp) (DStr "max") then Ok os
    else rbind (dyn_int (fst qp)) (fun q => rbind (dyn_int (snd qp)) (fun p =>
           if (0 <? q)%Z && (0 <? p)%Z then ceil_div q p else Ok os))).

Definition env_spec (os : Z) : res Z :=
  dyn_int (match dget (c_env cfg) "LOKY_MAX_CPU_COUNT" with Some s => DStr s | None => DInt os end).

Definition user_spec (os : Z) : res Z * bool :=
  let '(a, w) := affinity_spec os in
  match a with
  | Err e => (Err e, w)
  | Ok av =>
    match cgroup_spec os with
    | Err e => (Err e, w)
    | Ok cv => match env_spec os with
               | Err e => (Err e, w)
               | Ok ev => (Ok (Z.min (Z.min av cv) ev), w)
               end
    end
  end.

(* _count_physical_cores: ((value, exception), cache afterwards) *)
Definition physical_spec (cache : dyn) : (dyn * dyn) * dyn :=
  if negb (dyn_is_none cache) then ((cache, DNone), cache)
  else match c_probe cfg with
       | Ok n => if (n <? 1)%Z then ((NF, DExn ValueError), NF) else ((DInt n, DNone), DInt n)
       | Err e => ((NF, DExn e), NF)
       end.

(* cpu_count: (outcome, warnings emitted, cache afterwards) *)
Definition cpu_count_spec (flag : bool) (cache : dyn) : ctl dyn * list eff * dyn :=
  let os := os_count in
  let '(u, w) := user_spec os in
  let effs := if w then [W_AFF] else [] in
  match u with
  | Err e => (Raise e, effs, cache)
  | Ok user =>
    let agg := Z.max (Z.min os user) 1 in
    if negb flag then (Ret (DInt agg), effs, cache)
    else if (user <? os)%Z then (Ret (DInt (Z.max user 1)), effs, cache)
    else let '((ph, ex), cache') := physical_spec cache in
         if negb (dyn_eqb ph NF) then (Ret ph, effs, cache')
         else (Ret (DInt agg),
               (effs ++ if negb (dyn_is_none ex) then [W_PHYS] else [])%list, cache')
  end.
End S.
