(* C05 / C01: the loop of shutdown_workers() that posts one sentinel per registered worker (Gen/Ledger.v: the loop's shape and its
   three constants are read off the source).  It never blocks: put_nowait; a full queue makes it sleep cooldown_time, multiply that
   by `factor` and start over; it gives up (re-raises queue.Full) once cooldown_time exceeds `limit`; it stops when every sentinel is
   posted or no child is alive.  One environment answer per step: the number of children alive (read by the loop's test) and the
   outcome of the put (read by an attempt).  Definitions only; proofs in Proofs/SentinelLoopThm.v. *)
From Coq Require Import List Arith Bool NArith.
Import ListNotations.

(* cool0 * factor^k > limit, on fractions n/d, exactly *)
Definition exceeded (c0 f lim : nat * nat) (k : nat) : bool :=
  N.ltb (N.of_nat (fst lim) * N.of_nat (snd c0) * N.of_nat (snd f) ^ N.of_nat k)
        (N.of_nat (fst c0) * N.of_nat (fst f) ^ N.of_nat k * N.of_nat (snd lim)).
Fixpoint first_exceeded (c0 f lim : nat * nat) (fuel k : nat) : option nat :=
  match fuel with
  | 0 => None
  | S n => if exceeded c0 f lim k then Some k else first_exceeded c0 f lim n (S k)
  end.

Inductive put_res := POk | PFull.
Record answer := mkans { alive : nat; put : put_res }.
Inductive phase := Outer | Inner (todo : nat) | Done | Raised.
Record sl := mksl { sent : nat; grown : nat; ph : phase; saw_none_alive : bool }.
Definition sl0 : sl := mksl 0 0 Outer false.

(* n: workers found registered (= sentinels to post); K: number of full queues after which cooldown_time exceeds the limit *)
Definition step (n K : nat) (s : sl) (a : answer) : sl :=
  match ph s with
  | Outer =>
      if Nat.ltb (sent s) n
      then (if Nat.ltb 0 (alive a) then mksl (sent s) (grown s) (Inner (n - sent s)) (saw_none_alive s)
            else mksl (sent s) (grown s) Done true)
      else mksl (sent s) (grown s) Done (saw_none_alive s)
  | Inner 0 => mksl (sent s) (grown s) Outer (saw_none_alive s)                 (* the for loop is exhausted *)
  | Inner (S t) =>
      match put a with
      | POk => mksl (S (sent s)) (grown s) (Inner t) (saw_none_alive s)
      | PFull => if Nat.leb K (grown s) then mksl (sent s) (grown s) Raised (saw_none_alive s)        (* cooldown_time > limit: raise *)
                 else mksl (sent s) (S (grown s)) Outer (saw_none_alive s)                             (* sleep, grow, break *)
      end
  | Done | Raised => s
  end.
Definition run (n K : nat) (es : list answer) (s : sl) : sl := fold_left (step n K) es s.
Definition ended (s : sl) : bool := match ph s with Done | Raised => true | _ => false end.
