(* The executor's control state machine (C01, C02, C05, C06, C08): flags, process table, counts of futures, and the manager
   thread walking through the operation lists of its exit paths ONE OPERATION AT A TIME, interleaved with submit(), shutdown(),
   worker deaths, idle exits, completions, garbage collection of the executor and interpreter exit.
   Everything the manager / submit / the flag setters do is taken from Gen/Ledger.v and Gen/Pool.v (regenerated from the source
   on every run); this file only says what each operation means for the control state.  Identity of work items is the business
   of Model/TokenFlow.v; here futures are counted.  Definitions only; proofs in Proofs/PoolThm.v. *)
From Coq Require Import List Arith Bool.
From LokyV Require Import Lib.LedgerLib Lib.PoolLib Gen.Ledger Gen.Pool.
From LokyV Require Model.Ledger.
Import ListNotations.

Inductive wst := WAlive | WExited | WDead.      (* running / left through the clean handshake, not yet reaped / died abruptly *)
Inductive tag := TBroken | TShutting | TJoining.
Inductive mst := MLoop | MOps (t : tag) (ops : list rop) | MDone.

Record pool := mkp {
  user : bool;                 (* the executor object is still referenced *)
  shut : bool; broken : bool; kill : bool;      (* _ExecutorFlags *)
  gshut : bool;                (* _global_shutdown *)
  maxw : nat; procs : list wst;
  pending : nat;               (* futures not resolved yet *)
  submitted : nat; ok : nat; failB : nat; failS : nat;   (* ghost: accepted, delivered, failed BrokenProcessPool / ShutdownExecutorError *)
  refused : nat;               (* ghost: submit() calls that raised *)
  mgr : mst;
  sub : option (list sop)      (* a submit() in progress (it holds the shutdown lock): what is left of its statements *)
}.
Definition pool0 (n : nat) : pool := mkp true false false false false n [] 0 0 0 0 0 0 MLoop None.

Definition is_dead w := match w with WDead => true | _ => false end.
Definition is_alive w := match w with WAlive => true | _ => false end.

Definition set_flags p s b k := mkp (user p) s b k (gshut p) (maxw p) (procs p) (pending p) (submitted p) (ok p) (failB p) (failS p) (refused p) (mgr p) (sub p).
Definition set_procs p l := mkp (user p) (shut p) (broken p) (kill p) (gshut p) (maxw p) l (pending p) (submitted p) (ok p) (failB p) (failS p) (refused p) (mgr p) (sub p).
Definition set_mgr p m := mkp (user p) (shut p) (broken p) (kill p) (gshut p) (maxw p) (procs p) (pending p) (submitted p) (ok p) (failB p) (failS p) (refused p) m (sub p).

(* the flag setters (atomic: they run under the shutdown lock, as does submit) *)
Definition fprim (o : fop) (arg : option bool) (p : pool) : pool :=
  match o with
  | FSetShutdown => set_flags p true (broken p) (kill p)
  | FSetKillIfGiven => match arg with Some k => set_flags p (shut p) (broken p) k | None => p end
  | FSetBroken => set_flags p (shut p) true (kill p)
  end.
Definition fexec (ops : list fop) (arg : option bool) (p : pool) : pool := fold_left (fun p o => fprim o arg p) ops p.

Definition top_up (p : pool) : pool := set_procs p (procs p ++ repeat WAlive (maxw p - length (procs p))).

(* submit(): statement by statement; None = it raised *)
Fixpoint sexec (ops : list sop) (p : pool) : option pool :=
  match ops with
  | [] => Some p
  | o :: r =>
      match o with
      | SRaiseIfBroken => if broken p then None else sexec r p
      | SRaiseIfShutdown => if shut p then None else sexec r p
      | SRaiseIfGlobalShutdown => if gshut p then None else sexec r p
      | SAddPending => sexec r (mkp (user p) (shut p) (broken p) (kill p) (gshut p) (maxw p) (procs p) (S (pending p)) (S (submitted p))
                                    (ok p) (failB p) (failS p) (refused p) (mgr p) (sub p))
      | SEnsureRunning => sexec r (if ensure_running_tops_up_then_starts_manager then top_up p else p)
      | _ => sexec r p
      end
  end.

(* submit() does not run in one piece: it holds the shutdown lock (so the flags cannot move under it) but idle exits, reaps,
   completions and the manager's other operations interleave with its statements *)
Definition set_sub p v := mkp (user p) (shut p) (broken p) (kill p) (gshut p) (maxw p) (procs p) (pending p) (submitted p) (ok p)
                              (failB p) (failS p) (refused p) (mgr p) v.
Definition raises (o : sop) (p : pool) : bool :=
  match o with SRaiseIfBroken => broken p | SRaiseIfShutdown => shut p | SRaiseIfGlobalShutdown => gshut p | _ => false end.
Definition is_check (o : sop) : bool := match o with SRaiseIfBroken | SRaiseIfShutdown | SRaiseIfGlobalShutdown => true | _ => false end.
(* the leading checks, in one go: None = one of them raised, Some rest = what is left to do *)
Fixpoint checks_pass (ops : list sop) (p : pool) : option (list sop) :=
  match ops with
  | o :: r => if is_check o then (if raises o p then None else checks_pass r p) else Some ops
  | [] => Some []
  end.
Definition refuse p := mkp (user p) (shut p) (broken p) (kill p) (gshut p) (maxw p) (procs p) (pending p) (submitted p) (ok p) (failB p)
                           (failS p) (S (refused p)) (mgr p) None.
(* one statement of a submit() in progress *)
Definition sop1 (o : sop) (r : list sop) (p : pool) : pool :=
  let nxt := match r with [] => None | _ => Some r end in
  match o with
  | SAddPending => mkp (user p) (shut p) (broken p) (kill p) (gshut p) (maxw p) (procs p) (S (pending p)) (S (submitted p))
                       (ok p) (failB p) (failS p) (refused p) (mgr p) nxt
  | SEnsureRunning => set_sub (if ensure_running_tops_up_then_starts_manager then top_up p else p) nxt
  | _ => if raises o p then refuse p else set_sub p nxt
  end.
Definition lock_free (p : pool) : bool := match sub p with None => true | Some _ => false end.

Fixpoint beval (e : bexp) (p : pool) : bool :=
  match e with
  | BGlobalShutdown => gshut p
  | BExecutorNone => negb (user p)
  | BFlagShutdown => shut p
  | BFlagBroken => broken p
  | BNot a => negb (beval a p)
  | BAnd a b => beval a p && beval b p
  | BOr a b => beval a p || beval b p
  end.

(* one primitive operation of the manager, control-wise *)
Definition cprim (o : rop) (p : pool) : pool :=
  match o with
  | FlagBroken => fexec flag_as_broken_prog None p
  | FlagShutdown => fexec flag_as_shutting_down_prog None p
  | FailPending => mkp (user p) (shut p) (broken p) (kill p) (gshut p) (maxw p) (procs p) 0 (submitted p) (ok p)
                       (failB p + pending p) (failS p) (refused p) (mgr p) (sub p)
  | FailPendingShut => mkp (user p) (shut p) (broken p) (kill p) (gshut p) (maxw p) (procs p) 0 (submitted p) (ok p)
                           (failB p) (failS p + pending p) (refused p) (mgr p) (sub p)
  | KillWorkers => set_procs p []
  | ShutdownWorkers => set_procs p (map (fun w => if is_alive w then WExited else w) (procs p))
  | JoinAllProcesses => set_procs p []
  | _ => p
  end.

Definition needs_lock (o : rop) : bool := match o with FlagBroken | FlagShutdown => true | _ => false end.

Definition broken_ops : list rop := Ledger.flatten run_broken_exit.
Definition shutting_ops : list rop := Ledger.flatten [FlagExecutorShuttingDown].
Definition joining_ops : list rop := Ledger.flatten [JoinInternals].

Inductive ev :=
| Submit                     (* submit() begins: takes the shutdown lock, runs its leading checks *)
| SubmitStep                 (* ... its next statement *)
| ShutdownCall (k : bool) | Drop | InterpreterExit
| Crash (i : nat) | IdleExit (i : nat) | Complete (i : nat)
| Reap (i : nat)            (* manager: a clean exit is popped and joined; tops the pool up if work is waiting *)
| Detect                    (* manager: a sentinel fired without announcement -> terminate_broken *)
| CheckShut                 (* manager: is_shutting_down() -> flag_executor_shutting_down *)
| MgrOp                     (* manager: the next operation of the list it is walking *)
| ResizeTopUp.              (* _resize(): _adjust_process_count() from a user thread *)

Fixpoint set_nth (l : list wst) (i : nat) (v : wst) : list wst :=
  match l, i with [], _ => [] | _ :: t, 0 => v :: t | h :: t, S i => h :: set_nth t i v end.
Fixpoint del_nth (l : list wst) (i : nat) : list wst :=
  match l, i with [], _ => [] | _ :: t, 0 => t | h :: t, S i => h :: del_nth t i end.

(* nobody can get a new future accepted any more *)
Definition closed (p : pool) : bool := negb (user p) || shut p || gshut p.

Definition in_loop (p : pool) : bool := match mgr p with MLoop => true | _ => false end.

(* total: an event that is not enabled leaves the pool as it is *)
Definition step (p : pool) (e : ev) : pool :=
  match e with
  | Submit =>
      if user p && lock_free p then
        match checks_pass submit_prog p with
        | Some rest => set_sub p (match rest with [] => None | _ => Some rest end)
        | None => refuse p
        end
      else p
  | SubmitStep =>
      match sub p with
      | Some (o :: r) => sop1 o r p
      | Some [] => set_sub p None
      | None => p
      end
  | ShutdownCall k =>
      if user p && lock_free p && shutdown_flags_first_with_kill_argument then fexec flag_as_shutting_down_prog (Some k) p else p
  | Drop => if lock_free p     (* the object is in use while one of its methods runs *)
            then mkp false (shut p) (broken p) (kill p) (gshut p) (maxw p) (procs p) (pending p) (submitted p) (ok p) (failB p) (failS p)
                     (refused p) (mgr p) (sub p)
            else p
  | InterpreterExit => if lock_free p      (* assumed: no thread is inside submit() when the interpreter starts shutting down *)
                       then mkp (user p) (shut p) (broken p) (kill p) true (maxw p) (procs p) (pending p) (submitted p) (ok p) (failB p)
                                (failS p) (refused p) (mgr p) (sub p)
                       else p
  | Crash i => match nth_error (procs p) i with Some WAlive => set_procs p (set_nth (procs p) i WDead) | _ => p end
  | IdleExit i => match nth_error (procs p) i with Some WAlive => set_procs p (set_nth (procs p) i WExited) | _ => p end
  | Complete i =>
      match nth_error (procs p) i, pending p with
      | Some WAlive, S n => if in_loop p
                            then mkp (user p) (shut p) (broken p) (kill p) (gshut p) (maxw p) (procs p) n (submitted p) (S (ok p))
                                     (failB p) (failS p) (refused p) (mgr p) (sub p)
                            else p
      | _, _ => p end
  | Reap i =>
      match nth_error (procs p) i with
      | Some WExited => if in_loop p
                        then let p1 := set_procs p (del_nth (procs p) i) in
                             if user p && negb (Nat.eqb (pending p) 0) && clean_exit_reads_counters_after_the_pop_and_respawns_when_work_waits
                             then top_up p1 else p1
                        else p
      | _ => p end
  | Detect => if in_loop p && existsb is_dead (procs p) then set_mgr p (MOps TBroken broken_ops) else p
  | CheckShut => if in_loop p && beval is_shutting_down_expr p then set_mgr p (MOps TShutting shutting_ops) else p
  | MgrOp =>
      match mgr p with
      | MOps t (IfKillWorkers ops :: r) => set_mgr p (MOps t (if kill p then ops ++ r else r))
      | MOps t (o :: r) => if needs_lock o && negb (lock_free p) then p      (* the flag setters wait for the shutdown lock *)
                           else set_mgr (cprim o p) (MOps t r)
      | MOps TShutting [] => if Nat.eqb (pending p) 0 then set_mgr p (MOps TJoining joining_ops) else set_mgr p MLoop
      | MOps _ [] => set_mgr p MDone
      | _ => p
      end
  | ResizeTopUp =>
      (* tops the pool up only while it is neither broken nor shut down when the source says so (generated fact; false on the pinned
         source: finding H8).  Assumed, as for InterpreterExit: no thread resizes once the interpreter has started to shut down *)
      if user p && (negb resize_tops_up_only_on_a_live_pool || (negb (closed p) && negb (broken p))) then top_up p else p
  end.

Definition run (es : list ev) (p : pool) : pool := fold_left step es p.
Definition no_resize (es : list ev) : bool := forallb (fun e => match e with ResizeTopUp => false | _ => true end) es.

Definition is_ensure (o : sop) : bool := match o with SEnsureRunning => true | _ => false end.
Definition ensure_due (p : pool) : bool := match sub p with Some r => existsb is_ensure r | None => false end.
