(* C06: the forced-shutdown loop `while pending_work_items: popitem() ...` runs in the manager thread while the queue feeder thread
   removes from the same dict the items it fails to send (_on_queue_feeder_error: pending_work_items.pop(id, None)).  Between the
   loop's test and popitem() the feeder can take the last item: popitem() on an empty dict raises KeyError.  Whether the loop
   tolerates that is read off the source (Gen/Ledger.v: forced_loop_tolerates_a_table_emptied_by_the_feeder); on the pinned source it
   did not: finding H20 (the manager thread dies before kill_workers(): the workers survive a forced shutdown), fixed.
   Definitions only; proofs in Proofs/ForcedPopThm.v. *)
From Coq Require Import List Arith Bool.
Import ListNotations.

Inductive fph := AtTest | AtPop | LoopDone | LoopCrashed.
Record fpst := mkfpst { items : nat; failed_by_manager : nat; taken_by_feeder : nat; fphase : fph }.
Definition fstart (n : nat) : fpst := mkfpst n 0 0 AtTest.

Inductive ev := MgrStep | FeederPops.

Definition step (guarded : bool) (s : fpst) (e : ev) : fpst :=
  match e with
  | FeederPops => match items s with
                  | S n => mkfpst n (failed_by_manager s) (S (taken_by_feeder s)) (fphase s)
                  | 0 => s end
  | MgrStep =>
      match fphase s with
      | AtTest => match items s with 0 => mkfpst 0 (failed_by_manager s) (taken_by_feeder s) LoopDone
                                | S _ => mkfpst (items s) (failed_by_manager s) (taken_by_feeder s) AtPop end
      | AtPop => match items s with
                 | S n => mkfpst n (S (failed_by_manager s)) (taken_by_feeder s) AtTest
                 | 0 => mkfpst 0 (failed_by_manager s) (taken_by_feeder s) (if guarded then LoopDone else LoopCrashed)
                 end
      | _ => s
      end
  end.
Definition run (guarded : bool) (es : list ev) (s : fpst) : fpst := fold_left (step guarded) es s.
Definition mgr_steps (es : list ev) : nat := length (filter (fun e => match e with MgrStep => true | _ => false end) es).
