(* Counting semaphore / recursive mutex as loky's SemLock wrappers use _multiprocessing.SemLock (C14). *)
From Coq Require Import List Arith Bool Lia.
Import ListNotations.

Inductive kind := RecursiveMutex | Semaphore.
Record sem := mksem { skind : kind; value : nat; maxvalue : nat; owner : option nat; count : nat }.
Definition SEM_VALUE_MAX := 2147483647.

Inductive result := Done (s : sem) | WouldBlock | ValueError | AssertionError.

(* acquire(block=False) by thread t *)
Definition try_acquire (t : nat) (s : sem) : result :=
  match skind s, owner s with
  | RecursiveMutex, Some o =>
      if Nat.eqb o t && (0 <? count s) then Done (mksem (skind s) (value s) (maxvalue s) (owner s) (S (count s)))
      else match value s with
           | S v => Done (mksem (skind s) v (maxvalue s) (Some t) 1)
           | 0 => WouldBlock end
  | _, _ =>
      match value s with
      | S v => Done (mksem (skind s) v (maxvalue s) (Some t) (match skind s with RecursiveMutex => 1 | _ => S (count s) end))
      | 0 => WouldBlock end
  end.
Definition release (t : nat) (s : sem) : result :=
  match skind s with
  | RecursiveMutex =>
      match owner s with
      | Some o => if Nat.eqb o t && (0 <? count s)
                  then if 1 <? count s then Done (mksem (skind s) (value s) (maxvalue s) (owner s) (count s - 1))
                       else Done (mksem (skind s) (S (value s)) (maxvalue s) None 0)
                  else AssertionError
      | None => AssertionError end
  | Semaphore =>
      if maxvalue s <=? value s then ValueError
      else Done (mksem (skind s) (S (value s)) (maxvalue s) (owner s) (count s - 1))
  end.

(* the constructors' parameter tuples (kind, value, maxvalue) *)
Definition new (k : kind) (v m : nat) : sem := mksem k v m None 0.

Inductive op := Acq (t : nat) | Rel (t : nat).
(* a run where blocked acquires simply do not happen; [held] = tokens taken minus tokens given back *)
Fixpoint run (s : sem) (held : nat) (ops : list op) : option (sem * nat) :=
  match ops with
  | [] => Some (s, held)
  | Acq t :: tl => match try_acquire t s with
                   | Done s' => run s' (if (match skind s, owner s with
                                           | RecursiveMutex, Some o => Nat.eqb o t && (0 <? count s) | _, _ => false end)
                                        then held else S held) tl
                   | _ => run s held tl end
  | Rel t :: tl => match release t s with
                   | Done s' => run s' (if (match skind s with RecursiveMutex => 1 <? count s | _ => false end)
                                        then held else held - 1) tl
                   | _ => run s held tl end
  end.
