(* The wake-up protocol between submit() / Future.cancel() / shutdown() and the executor manager thread (C01, C05).
   The manager sleeps in wait_result_broken_or_wakeup(); it is woken by a byte in the wake-up pipe (submit, shutdown) or by a result.
   After waking it CLEARS the pipe, processes the result it read, and -- if the pool is shutting down -- leaves when nothing is
   pending.  Finding H11 (fixed by 935b0be, see known_findings.json): a job submitted, cancelled and followed by
   shutdown(wait=True) before the manager looked at it stayed in pending_work_items; the manager had already consumed the
   shutdown wake-up, dropped the cancelled item on its next round and went back to sleep for ever.  Whether the manager re-reads
   the work ids before deciding to wait again is read off the source (Gen/Ledger.v: manager_rechecks_work_ids_when_shutting_down).
   Counters only: how many items of pending_work_items are untouched (still in work_ids) and pending / cancelled, dispatched,
   finished but not yet processed.  Definitions only; proofs in Proofs/WakeThm.v. *)
From Coq Require Import List Arith Bool.
From LokyV Require Import Lib.LedgerLib Gen.Ledger.
Import ListNotations.

Inductive mph :=
| MAdd          (* about to run add_call_item_to_queue() *)
| MWait         (* in wait_result_broken_or_wakeup() *)
| MWoken        (* woken: about to clear the wake-up pipe *)
| MProcess      (* about to process the result it read, if any *)
| MCheck        (* about to test is_shutting_down() *)
| MExit.        (* join_executor_internals(); the thread ends *)

Record ws := mkw {
  np : nat; nc : nat;           (* items whose id is still in work_ids: pending / cancelled *)
  nr : nat;                     (* dispatched, running *)
  nd : nat;                     (* finished, result not yet processed by the manager *)
  wake : nat;                   (* bytes in the wake-up pipe *)
  results : nat;                (* results readable in the result pipe *)
  have : bool;                  (* the manager holds a result it has read *)
  shut : bool;
  ph : mph
}.
Definition ws0 : ws := mkw 0 0 0 0 0 0 false false MAdd.
Definition in_table (s : ws) : nat := np s + nc s + nr s + nd s.      (* len(pending_work_items) *)

Inductive ev :=
| Submit                (* pending[w] = item; work_ids.put(w); wakeup() *)
| Cancel                (* Future.cancel() on a future that is still pending *)
| Shutdown              (* flag; wakeup() *)
| Finish                (* a worker finishes a dispatched item: its result becomes readable *)
| Mgr.                  (* the manager's next step *)

Definition step_with (rechecks : bool) (s : ws) (e : ev) : ws :=
  match e with
  | Submit => if shut s then s else mkw (S (np s)) (nc s) (nr s) (nd s) (S (wake s)) (results s) (have s) (shut s) (ph s)
  | Cancel => match np s with S n => mkw n (S (nc s)) (nr s) (nd s) (wake s) (results s) (have s) (shut s) (ph s) | 0 => s end
  | Shutdown => mkw (np s) (nc s) (nr s) (nd s) (S (wake s)) (results s) (have s) true (ph s)
  | Finish => match nr s with S n => mkw (np s) (nc s) n (S (nd s)) (wake s) (S (results s)) (have s) (shut s) (ph s) | 0 => s end
  | Mgr =>
      match ph s with
      | MAdd =>      (* every work id is looked at: a cancelled item is dropped, a pending one is dispatched *)
          mkw 0 0 (nr s + np s) (nd s) (wake s) (results s) (have s) (shut s) MWait
      | MWait => if Nat.eqb (wake s + results s) 0 then s        (* blocked *)
                 else match results s with
                      | S r => mkw (np s) (nc s) (nr s) (nd s) (wake s) r true (shut s) MWoken
                      | 0 => mkw (np s) (nc s) (nr s) (nd s) (wake s) 0 false (shut s) MWoken end
      | MWoken => mkw (np s) (nc s) (nr s) (nd s) 0 (results s) (have s) (shut s) MProcess           (* thread_wakeup.clear() *)
      | MProcess => mkw (np s) (nc s) (nr s) (if have s then pred (nd s) else nd s) (wake s) (results s) false (shut s) MCheck
      | MCheck =>
          if shut s then
            let s1 := if rechecks then mkw 0 0 (nr s + np s) (nd s) (wake s) (results s) (have s) (shut s) (ph s) else s in
            if Nat.eqb (in_table s1) 0
            then mkw (np s1) (nc s1) (nr s1) (nd s1) (wake s1) (results s1) (have s1) (shut s1) MExit
            else mkw (np s1) (nc s1) (nr s1) (nd s1) (wake s1) (results s1) (have s1) (shut s1) MAdd
          else mkw (np s) (nc s) (nr s) (nd s) (wake s) (results s) (have s) (shut s) MAdd
      | MExit => s
      end
  end.
Definition step := step_with manager_rechecks_work_ids_when_shutting_down.
Definition run (es : list ev) (s : ws) : ws := fold_left step es s.

(* the manager sleeps and nothing inside the pool will ever wake it *)
Definition asleep_for_good (s : ws) : bool :=
  match ph s with MWait => Nat.eqb (wake s + results s) 0 && Nat.eqb (nr s) 0 | _ => false end.
