(* The wake-up protocol between submit() / Future.cancel() / shutdown() and the executor manager thread (C01, C05).
   The manager sleeps in wait_result_broken_or_wakeup(); it is woken by a byte in the wake-up pipe (submit, shutdown) or by a result.
   After waking it CLEARS the pipe, processes the result it read, and -- if the pool is shutting down -- leaves when nothing is
   pending.  submit() is walked statement by statement in the order of the source (Gen/Pool.v: submit_prog): registering the work
   item, publishing its id, writing the wake-up byte are three separate steps the manager can interleave with.
   Finding H11 (fixed by 935b0be, see known_findings.json): a job submitted, cancelled and followed by shutdown(wait=True) before the
   manager looked at it stayed in pending_work_items; the manager had already consumed the shutdown wake-up, dropped the cancelled
   item on its next round and went back to sleep for ever.  Whether the manager re-reads the work ids before deciding to wait again
   is read off the source (Gen/Ledger.v: manager_rechecks_work_ids_when_shutting_down).
   With kill_workers=True the manager fails and drops every pending item; whether it also forgets the work ids still waiting is a
   generated fact (forced_shutdown_forgets_the_waiting_work_ids): if it does not, the re-check above looks up an id whose item is gone
   and the thread dies of KeyError -- a regression the first version of the H11 repair introduced (caught by C20's thorough tier).
   Counters only: items of pending_work_items whose id is not published yet, published and still pending / cancelled, dispatched,
   finished but not yet processed.  Definitions only; proofs in Proofs/WakeThm.v. *)
From Coq Require Import List Arith Bool.
From LokyV Require Import Lib.LedgerLib Gen.Ledger Lib.PoolLib Gen.Pool.
Import ListNotations.

Inductive mph :=
| MAdd          (* about to run add_call_item_to_queue() *)
| MWait         (* in wait_result_broken_or_wakeup() *)
| MWoken        (* woken: about to clear the wake-up pipe *)
| MProcess      (* about to process the result it read, if any *)
| MCheck        (* about to test is_shutting_down() *)
| MExit         (* join_executor_internals(); the thread ends *)
| MCrashed.     (* add_call_item_to_queue() looked up a work id whose item is gone: KeyError, the thread dies without cleaning up *)

Record ws := mkw {
  nt : nat;                     (* items registered in pending_work_items whose id is not in work_ids yet *)
  np : nat; nc : nat;           (* items whose id is in work_ids: pending / cancelled *)
  nr : nat;                     (* dispatched, running *)
  nd : nat;                     (* finished, result not yet processed by the manager *)
  wake : nat;                   (* bytes in the wake-up pipe *)
  results : nat;                (* results readable in the result pipe *)
  have : bool;                  (* the manager holds a result it has read *)
  shut : bool;
  ph : mph;
  sub : list sop;               (* the submit() in progress (under the shutdown lock): what is left of its body *)
  kill : bool;                  (* shutdown(kill_workers=True) was asked *)
  stale : nat                   (* ids waiting in work_ids whose work item has been dropped *)
}.
Definition ws0 : ws := mkw 0 0 0 0 0 0 0 false false MAdd [] false 0.
Definition in_table (s : ws) : nat := nt s + np s + nc s + nr s + nd s.      (* len(pending_work_items) *)

(* the statements of submit() that matter here, in source order *)
Definition relevant (o : sop) : bool := match o with SAddPending | SPutWorkId | SWakeup => true | _ => false end.
Definition wake_ops : list sop := filter relevant submit_prog.

Inductive ev :=
| SubmitBegin           (* submit() takes the shutdown lock and passes its checks *)
| SubStep               (* its next statement *)
| Cancel                (* Future.cancel() on a future that is still pending and published *)
| Shutdown              (* flag (under the shutdown lock); wakeup() *)
| ShutdownKill          (* the same with kill_workers=True *)
| Finish                (* a worker finishes a dispatched item: its result becomes readable *)
| Mgr.                  (* the manager's next step *)

Definition upd_sub (s : ws) (nt' np' wake' : nat) (l : list sop) : ws :=
  mkw nt' np' (nc s) (nr s) (nd s) wake' (results s) (have s) (shut s) (ph s) l (kill s) (stale s).

Definition step_with (rechecks drains : bool) (ops : list sop) (s : ws) (e : ev) : ws :=
  match e with
  | SubmitBegin => match sub s with
                   | [] => if shut s then s else upd_sub s (nt s) (np s) (wake s) ops
                   | _ => s end
  | SubStep => match sub s with
               | SAddPending :: r => upd_sub s (S (nt s)) (np s) (wake s) r
               | SPutWorkId :: r => match nt s with S n => upd_sub s n (S (np s)) (wake s) r | 0 => upd_sub s 0 (np s) (wake s) r end
               | SWakeup :: r => upd_sub s (nt s) (np s) (S (wake s)) r
               | _ :: r => upd_sub s (nt s) (np s) (wake s) r
               | [] => s end
  | Cancel => match np s with
              | S n => mkw (nt s) n (S (nc s)) (nr s) (nd s) (wake s) (results s) (have s) (shut s) (ph s) (sub s) (kill s) (stale s)
              | 0 => s end
  | Shutdown => match sub s with
                | [] => mkw (nt s) (np s) (nc s) (nr s) (nd s) (S (wake s)) (results s) (have s) true (ph s) [] (kill s) (stale s)
                | _ => s end                       (* the flag is set under the lock submit() holds *)
  | ShutdownKill => match sub s with
                    | [] => mkw (nt s) (np s) (nc s) (nr s) (nd s) (S (wake s)) (results s) (have s) true (ph s) [] true (stale s)
                    | _ => s end
  | Finish => match nr s with
              | S n => mkw (nt s) (np s) (nc s) n (S (nd s)) (wake s) (S (results s)) (have s) (shut s) (ph s) (sub s) (kill s) (stale s)
              | 0 => s end
  | Mgr =>
      match ph s with
      | MAdd =>      (* every published work id is looked at: a cancelled item is dropped, a pending one is dispatched *)
          if negb (Nat.eqb (stale s) 0)
          then mkw (nt s) (np s) (nc s) (nr s) (nd s) (wake s) (results s) (have s) (shut s) MCrashed (sub s) (kill s) (stale s) else
          mkw (nt s) 0 0 (nr s + np s) (nd s) (wake s) (results s) (have s) (shut s) MWait (sub s) (kill s) (stale s)
      | MWait => if Nat.eqb (wake s + results s) 0 then s        (* blocked *)
                 else match results s with
                      | S r => mkw (nt s) (np s) (nc s) (nr s) (nd s) (wake s) r true (shut s) MWoken (sub s) (kill s) (stale s)
                      | 0 => mkw (nt s) (np s) (nc s) (nr s) (nd s) (wake s) 0 false (shut s) MWoken (sub s) (kill s) (stale s) end
      | MWoken => mkw (nt s) (np s) (nc s) (nr s) (nd s) 0 (results s) (have s) (shut s) MProcess (sub s) (kill s) (stale s)           (* thread_wakeup.clear() *)
      | MProcess => mkw (nt s) (np s) (nc s) (nr s) (if have s then pred (nd s) else nd s) (wake s) (results s) false (shut s) MCheck (sub s) (kill s) (stale s)
      | MCheck =>
          if shut s then
            (* flag_executor_shutting_down(): with kill_workers every item of pending_work_items is failed and dropped; the ids still
               waiting in work_ids are forgotten too when the source says so, otherwise they stay behind *)
            let s0 := if kill s
                      then mkw 0 0 0 0 0 (wake s) (results s) (have s) (shut s) (ph s) (sub s) (kill s)
                               (if drains then 0 else stale s + np s + nc s)
                      else s in
            (* add_call_item_to_queue() once more (rechecks): a stale id makes it raise KeyError *)
            if rechecks && negb (Nat.eqb (stale s0) 0)
            then mkw (nt s0) (np s0) (nc s0) (nr s0) (nd s0) (wake s0) (results s0) (have s0) (shut s0) MCrashed (sub s0) (kill s0) (stale s0)
            else
            let s1 := if rechecks then mkw (nt s0) 0 0 (nr s0 + np s0) (nd s0) (wake s0) (results s0) (have s0) (shut s0) (ph s0) (sub s0) (kill s0) (stale s0)
                      else s0 in
            if Nat.eqb (in_table s1) 0
            then mkw (nt s1) (np s1) (nc s1) (nr s1) (nd s1) (wake s1) (results s1) (have s1) (shut s1) MExit (sub s1) (kill s1) (stale s1)
            else mkw (nt s1) (np s1) (nc s1) (nr s1) (nd s1) (wake s1) (results s1) (have s1) (shut s1) MAdd (sub s1) (kill s1) (stale s1)
          else mkw (nt s) (np s) (nc s) (nr s) (nd s) (wake s) (results s) (have s) (shut s) MAdd (sub s) (kill s) (stale s)
      | MExit => s
      | MCrashed => s
      end
  end.
Definition step := step_with manager_rechecks_work_ids_when_shutting_down forced_shutdown_forgets_the_waiting_work_ids wake_ops.
Definition run (es : list ev) (s : ws) : ws := fold_left step es s.

(* the manager sleeps, no submit() is in progress, and nothing inside the pool will ever wake it *)
Definition asleep_for_good (s : ws) : bool :=
  match ph s, sub s with MWait, [] => Nat.eqb (wake s + results s) 0 && Nat.eqb (nr s) 0 | _, _ => false end.
