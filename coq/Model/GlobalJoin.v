(* Two executors and the module-wide _global_shutdown_lock (C06 "completes in time independent of how long the running tasks would
   take"; finding H22).  ProcessPoolExecutor.shutdown(wait=True) joins its manager thread WHILE HOLDING that lock (generated lock edge
   (LGlobal, TMgr) from shutdown, Gen/LockOrder.v / Gen/Pool.v).  Executor 1 is being shut down gracefully by one thread while its task
   still needs [rem1] ticks; another thread calls shutdown(kill_workers=True) on executor 2.

   [gl] = the join is done under the global lock (true for loky).  Definitions only; proofs in Proofs/GlobalJoinThm.v. *)
From Coq Require Import List Arith Bool.
Import ListNotations.

Inductive cpc := CStart | CFlagged | CHolding | CDone.
Record gj := mkgj {
  rem1 : nat;          (* ticks the running task of executor 1 still needs *)
  ticks : nat;         (* ticks elapsed *)
  m1_done : bool;      (* manager thread of executor 1 ended (graceful: only when its work is done) *)
  m2_done : bool;      (* manager thread of executor 2 ended (forced: needs no tick, C06_forced_shutdown_is_prompt) *)
  c1 : cpc;            (* the thread in ex1.shutdown(wait=True) *)
  c2 : cpc;            (* the thread in ex2.shutdown(kill_workers=True) *)
  lock : bool          (* _global_shutdown_lock is held *)
}.
Definition gj0 (n : nat) : gj := mkgj n 0 false false CStart CStart false.

Inductive gev := Tick | C1Flag | M1End | C1Acquire | C1JoinRelease | C2Flag | M2End | C2Acquire | C2JoinRelease.

Definition is (a b : cpc) : bool := match a, b with CStart, CStart | CFlagged, CFlagged | CHolding, CHolding | CDone, CDone => true | _, _ => false end.

Definition gstep (gl : bool) (s : gj) (e : gev) : gj :=
  match e with
  | Tick => mkgj (rem1 s - 1) (S (ticks s)) (m1_done s) (m2_done s) (c1 s) (c2 s) (lock s)
  | C1Flag => if is (c1 s) CStart then mkgj (rem1 s) (ticks s) (m1_done s) (m2_done s) CFlagged (c2 s) (lock s) else s
  | M1End => if negb (is (c1 s) CStart) && (rem1 s =? 0) then mkgj (rem1 s) (ticks s) true (m2_done s) (c1 s) (c2 s) (lock s) else s
  | C1Acquire => if is (c1 s) CFlagged && negb (gl && lock s) then mkgj (rem1 s) (ticks s) (m1_done s) (m2_done s) CHolding (c2 s) (gl || lock s) else s
  | C1JoinRelease => if is (c1 s) CHolding && m1_done s then mkgj (rem1 s) (ticks s) (m1_done s) (m2_done s) CDone (c2 s) (if gl then false else lock s) else s
  | C2Flag => if is (c2 s) CStart then mkgj (rem1 s) (ticks s) (m1_done s) (m2_done s) (c1 s) CFlagged (lock s) else s
  | M2End => if negb (is (c2 s) CStart) then mkgj (rem1 s) (ticks s) (m1_done s) true (c1 s) (c2 s) (lock s) else s
  | C2Acquire => if is (c2 s) CFlagged && negb (gl && lock s) then mkgj (rem1 s) (ticks s) (m1_done s) (m2_done s) (c1 s) CHolding (gl || lock s) else s
  | C2JoinRelease => if is (c2 s) CHolding && m2_done s then mkgj (rem1 s) (ticks s) (m1_done s) (m2_done s) (c1 s) CDone (if gl then false else lock s) else s
  end.
Definition grun (gl : bool) (es : list gev) (s : gj) : gj := fold_left (gstep gl) es s.
