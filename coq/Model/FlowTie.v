(* Tie between Model/TokenFlow.v and the source, beyond trace validation: the program counters of the manager thread, the feeder
   thread and the submitting threads in TokenFlow.v say in which ORDER each of them mutates the shared structures (pending table,
   work-id queue, running list, slot semaphore, feeder buffer, futures).  That order is read off the source on every run
   (Gen/Flow.v: add_call_item_to_queue, process_result_item, _on_queue_feeder_error, Queue._feed, the forced-shutdown loop;
   Gen/Pool.v: submit) and compared here with the model's:
     1. every step of TokenFlow.step moves the acting thread's program counter along an edge of a small automaton (mgr_edges,
        fdr_edges, usr_edges) and leaves the other counters alone           -- proved for all states (Proofs/FlowTieThm.v);
     2. the cycles of those automata from the idle counter back to it are exactly the mutation paths of the generated programs
                                                                             -- by computation on the generated programs.
   A change of the source that reorders two mutations (say, appending to running_work_items after the put, or resolving the
   future before the item leaves the table) breaks 2 without any schedule having to be sampled.  Definitions only. *)
From Coq Require Import List Arith Bool.
From LokyV Require Import Lib.FlowLib Lib.PoolLib Model.TokenFlow.
Import ListNotations.

(* program counters without their payload *)
Inductive msh := HIdle | HGot | HSkip | HRun | HPutC | HBufC | HPutS | HBufS | HRes1 | HRes2 | HRes3 | HFail.
Definition mshape (m : mpc) : msh :=
  match m with
  | MIdle => HIdle | MGot _ => HGot | MSkip _ => HSkip | MRun _ => HRun
  | MPut (ICall _) => HPutC | MPut ISent => HPutS | MBuf (ICall _) => HBufC | MBuf ISent => HBufS
  | MRes1 _ => HRes1 | MRes2 _ => HRes2 | MRes3 _ => HRes3 | MFail _ => HFail
  end.
Inductive fsh := GIdle | GHoldC | GHoldS | GErr1 | GErr2 | GErr3Had | GErr3Not.
Definition fshape (f : fpc) : fsh :=
  match f with
  | FIdle => GIdle | FHold (ICall _) => GHoldC | FHold ISent => GHoldS | FErr1 _ => GErr1 | FErr2 _ _ => GErr2
  | FErr3 _ true => GErr3Had | FErr3 _ false => GErr3Not
  end.
Inductive ush := VIdle | VHalf | VPut | VBuf.
Definition ushape (u : upc) : ush := match u with UIdle => VIdle | UHalf _ => VHalf | UPut _ => VPut | UBuf _ => VBuf end.

(* what a label mutates, seen from the acting thread (None: the step changes no shared structure, or belongs to the pool-wide /
   receive side that the Flow programs do not cover) *)
Inductive ekind := EK (k : mkind) | ESilent | ERecv | EDropRes | EFailAll | EClear | ESentinel | ESubmitA | ESubmitB.

Definition mgr_edges : list (msh * ekind * msh) :=
  [ (HIdle, EK KTakeId, HGot); (HGot, EK KSetRunning, HRun); (HGot, EK KSetRunning, HSkip); (HSkip, EK KDelPending, HIdle);
    (HRun, EK KAddRunning, HPutC); (HPutC, EK KAcqSlot, HBufC); (HBufC, EK KBufAppend, HIdle);
    (HIdle, ESentinel, HPutS); (HPutS, EK KAcqSlot, HBufS); (HBufS, EK KBufAppend, HIdle);
    (HIdle, ERecv, HRes1); (HIdle, ERecv, HIdle); (HRes1, EDropRes, HIdle);
    (HRes1, EK KPopPending, HRes2); (HRes1, EK KPopPending, HIdle); (HRes2, EK KSetFuture, HRes3); (HRes3, EK KDelRunning, HIdle);
    (HIdle, EFailAll, HIdle); (HIdle, EClear, HIdle); (HIdle, EK KPopItem, HFail); (HFail, EK KFailOne, HIdle) ].
Definition fdr_edges : list (fsh * ekind * fsh) :=
  [ (GIdle, EK KPopBuffer, GHoldC); (GIdle, EK KPopBuffer, GHoldS); (GHoldC, EK KSend, GIdle); (GHoldS, EK KSend, GIdle);
    (GHoldC, EK KRelSlot, GErr1); (GErr1, EK KPopPending, GErr2); (GErr2, EK KDelRunning, GErr3Had); (GErr2, EK KDelRunning, GErr3Not);
    (GErr3Had, EK KSetFuture, GIdle); (GErr3Not, ESilent, GIdle) ].
Definition usr_edges : list (ush * ekind * ush) :=
  [ (VIdle, ESubmitA, VHalf); (VHalf, ESubmitB, VIdle); (VIdle, ESentinel, VPut); (VPut, EK KAcqSlot, VBuf); (VBuf, EK KBufAppend, VIdle) ].

Inductive actor := AMgr | AFdr | AUsr (u : uid) | AOther.
Definition acts (s : state) (l : label) : actor * ekind :=
  match l with
  | USubmitA u => (AUsr u, ESubmitA) | USubmitB u => (AUsr u, ESubmitB) | UCancel _ => (AOther, ESilent)
  | UPutStart u => (AUsr u, ESentinel) | UAcqSlot u => (AUsr u, EK KAcqSlot) | UBufAppend u => (AUsr u, EK KBufAppend)
  | MTake => (AMgr, EK KTakeId) | MSetRunning => (AMgr, EK KSetRunning) | MDelPending => (AMgr, EK KDelPending)
  | MAddRunning => (AMgr, EK KAddRunning) | MAcqSlot => (AMgr, EK KAcqSlot) | MBufAppend => (AMgr, EK KBufAppend)
  | MPutSentinel => (AMgr, ESentinel) | MRecv => (AMgr, ERecv) | MDropRes => (AMgr, EDropRes)
  | MPopPending => (AMgr, EK KPopPending) | MSetFuture _ => (AMgr, EK KSetFuture) | MDelRunning => (AMgr, EK KDelRunning)
  | MFailAll _ => (AMgr, EFailAll) | MClear => (AMgr, EClear) | MPopFail _ => (AMgr, EK KPopItem) | MFailOne => (AMgr, EK KFailOne)
  | FPop => (AFdr, EK KPopBuffer) | FSend => (AFdr, EK KSend) | FErrRelease => (AFdr, EK KRelSlot) | FErrPop => (AFdr, EK KPopPending)
  | FErrRemove => (AFdr, EK KDelRunning)
  | FErrSet => (AFdr, match fdr s with FErr3 _ false => ESilent | _ => EK KSetFuture end)
  | _ => (AOther, ESilent)
  end.

(* ---- cycles of an automaton: every path from the idle state back to it (depth-first, bounded by the fuel) ---- *)
Section Cycles.
  Context {S : Type} (eqb : S -> S -> bool) (edges : list (S * ekind * S)) (idle : S).
  Fixpoint walks (fuel : nat) (from : S) : list (list ekind) :=
    match fuel with
    | 0 => []
    | Datatypes.S n =>
        flat_map (fun e => match e with
                           | (a, k, b) => if eqb a from
                                          then (if eqb b idle then [[k]] else map (cons k) (walks n b))
                                          else []
                           end) edges
    end.
  Definition cycles (fuel : nat) : list (list ekind) := walks fuel idle.
End Cycles.

Definition msh_eqb (a b : msh) : bool :=
  match a, b with
  | HIdle, HIdle | HGot, HGot | HSkip, HSkip | HRun, HRun | HPutC, HPutC | HBufC, HBufC | HPutS, HPutS | HBufS, HBufS
  | HRes1, HRes1 | HRes2, HRes2 | HRes3, HRes3 | HFail, HFail => true | _, _ => false end.
Definition fsh_eqb (a b : fsh) : bool :=
  match a, b with
  | GIdle, GIdle | GHoldC, GHoldC | GHoldS, GHoldS | GErr1, GErr1 | GErr2, GErr2 | GErr3Had, GErr3Had | GErr3Not, GErr3Not => true
  | _, _ => false end.
Definition ush_eqb (a b : ush) : bool :=
  match a, b with VIdle, VIdle | VHalf, VHalf | VPut, VPut | VBuf, VBuf => true | _, _ => false end.

Definition mgr_cycles := cycles msh_eqb mgr_edges HIdle 8.
Definition fdr_cycles := cycles fsh_eqb fdr_edges GIdle 8.
Definition usr_cycles := cycles ush_eqb usr_edges VIdle 8.

(* the cycles that begin with a given event, that event removed; silent steps dropped; as mutation kinds *)
Definition ekind_is (a b : ekind) : bool :=
  match a, b with
  | EK x, EK y => mk_eqb x y | ESilent, ESilent | ERecv, ERecv | EDropRes, EDropRes | EFailAll, EFailAll | EClear, EClear
  | ESentinel, ESentinel | ESubmitA, ESubmitA | ESubmitB, ESubmitB => true | _, _ => false end.
Definition only_mk (p : list ekind) : option (list mkind) :=
  fold_right (fun e acc => match e, acc with
                           | EK k, Some r => Some (k :: r) | ESilent, Some r => Some r | _, _ => None end) (Some []) p.
Definition starting_with (first : ekind) (keep_first : bool) (cs : list (list ekind)) : list (list mkind) :=
  flat_map (fun c => match c with
                     | e :: r => if ekind_is e first
                                 then match only_mk (if keep_first then e :: r else r) with Some p => [p] | None => [] end
                                 else []
                     | [] => [] end) cs.

(* same set of paths (both sides are short duplicate-free lists) *)
Definition path_eqb (a b : list mkind) : bool :=
  Nat.eqb (length a) (length b) && forallb (fun p => mk_eqb (fst p) (snd p)) (combine a b).
Definition subset (a b : list (list mkind)) : bool := forallb (fun p => existsb (path_eqb p) b) a.
Definition same_paths (a b : list (list mkind)) : bool := subset a b && subset b a.

(* submit(): the two statements that publish a job, in source order *)
Definition submit_publication (prog : list sop) : list ekind :=
  flat_map (fun o => match o with SAddPending => [ESubmitA] | SPutWorkId => [ESubmitB] | _ => [] end) prog.
