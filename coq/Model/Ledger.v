(* C20: the parent-side resource ledger of executor life cycles.
   The operation lists of every way out of the manager thread's loop, of flag_executor_shutting_down, terminate_broken and
   join_executor_internals, the reference-dropping rule of shutdown() and the join behaviour of kill_process_tree / the queue
   feeder are taken from Gen/Ledger.v (regenerated from the source on every run).  Definitions only; proofs in
   Proofs/LedgerThm.v.

   What owns what (read off process_executor.py / queues.py / multiprocessing):
     call queue      2 descriptors, 3 named semaphores   kept alive by: executor (until shutdown drops it), manager thread, feeder thread
     result queue    2 descriptors, 2 named semaphores   kept alive by: executor, manager thread
     wake-up pipe    2 descriptors                      kept alive by: executor, manager thread
     management lock 1 named semaphore                  kept alive by: executor, manager thread
     worker          1 sentinel descriptor, 1 named semaphore (exit lock), 1 child process
                     kept alive by multiprocessing's own child table until the Process object is joined (or a later
                     Process.start() finds it reaped)
   An explicit close() releases descriptors early; semaphores go with their owner object. *)
From Coq Require Import List Arith Bool.
From LokyV Require Import Lib.LedgerLib Gen.Ledger.
Import ListNotations.

Inductive pst := Alive | Zombie | Reaped.     (* Zombie: exited, not yet waited for; Reaped: waited for, Process object not joined *)
Inductive tstate := TNone | TRun | TEnd.
Inductive fstate := FNone | FRun | FStop | FEnd.

Record ex := mkex {
  user : bool;            (* the user still references the executor *)
  refs : bool;            (* the executor still references queues / wake-up / lock *)
  mgr : tstate; feeder : fstate;
  table : list pst;       (* executor._processes, the same dict as manager.processes *)
  shut : bool; killf : bool;
  cqc : bool; rqc : bool; wkc : bool;     (* close() was called on call queue / result queue / wake-up pipe *)
  stuck : bool;           (* a join was asked of a process nobody told to stop *)
  rdc : bool              (* the parent's own handle of the call queue's read end has been closed (kill_workers, generated fact) *)
}.
Definition fresh : ex := mkex true true TNone FNone [] false false false false false false false.

Record world := mkw { cur : ex; stale : list pst }.
(* stale: Process objects no executor owns any more but that are still in multiprocessing's child table *)

Definition pst_eqb a b := match a, b with Alive, Alive | Zombie, Zombie | Reaped, Reaped => true | _, _ => false end.
Definition is_alive p := pst_eqb p Alive.
Definition is_reaped p := pst_eqb p Reaped.
Definition feeder_live f := match f with FRun | FStop => true | _ => false end.
Definition mgr_run m := match m with TRun => true | _ => false end.

Section Sem.
Variable psutil : bool.     (* is psutil importable in the parent *)

(* kill_process_tree(p) for one popped process: does the Process object remain un-joined? *)
Definition kill_leaves_stale (p : pst) : bool :=
  if psutil
  then (is_reaped p && kill_tree_psutil_returns_without_join_when_gone) || negb kill_tree_psutil_joins_otherwise
  else negb kill_tree_nopsutil_always_joins.

Definition set_table (e : ex) t := mkex (user e) (refs e) (mgr e) (feeder e) t (shut e) (killf e) (cqc e) (rqc e) (wkc e) (stuck e) (rdc e).
Definition set_feeder (e : ex) f := mkex (user e) (refs e) (mgr e) f (table e) (shut e) (killf e) (cqc e) (rqc e) (wkc e) (stuck e) (rdc e).
Definition set_mgr (e : ex) m := mkex (user e) (refs e) m (feeder e) (table e) (shut e) (killf e) (cqc e) (rqc e) (wkc e) (stuck e) (rdc e).

Definition prim (o : rop) (w : world) : world :=
  let e := cur w in
  match o with
  | ShutdownWorkers =>      (* every live worker gets its exit lock and a sentinel: it exits *)
      mkw (set_table e (map (fun p => if is_alive p then Zombie else p) (table e))) (stale w)
  | QClose CallQ =>
      mkw (mkex (user e) (refs e) (mgr e) (match feeder e with FRun => FStop | f => f end) (table e) (shut e) (killf e)
                true (rqc e) (wkc e) (stuck e) (rdc e)) (stale w)
  | QClose ResultQ =>
      mkw (mkex (user e) (refs e) (mgr e) (feeder e) (table e) (shut e) (killf e) (cqc e) true (wkc e) (stuck e) (rdc e)) (stale w)
  | QJoinThread CallQ =>
      if feeder_not_joined_by_creator then w
      else mkw (set_feeder e (match feeder e with FStop => FEnd | f => f end)) (stale w)
  | QJoinThread ResultQ => w
  | WakeupClose =>
      mkw (mkex (user e) (refs e) (mgr e) (feeder e) (table e) (shut e) (killf e) (cqc e) (rqc e) true (stuck e) (rdc e)) (stale w)
  | JoinAllProcesses =>
      mkw (mkex (user e) (refs e) (mgr e) (feeder e) [] (shut e) (killf e) (cqc e) (rqc e) (wkc e)
                (stuck e || existsb is_alive (table e)) (rdc e)) (stale w)
  | KillWorkers =>
      mkw (mkex (user e) (refs e) (mgr e) (feeder e) [] (shut e) (killf e) (cqc e) (rqc e) (wkc e) (stuck e)
                (rdc e || kill_workers_closes_the_call_queue_reader))
          (stale w ++ map (fun _ => Reaped) (filter kill_leaves_stale (table e)))
  | FlagShutdown =>
      mkw (mkex (user e) (refs e) (mgr e) (feeder e) (table e) true (killf e) (cqc e) (rqc e) (wkc e) (stuck e) (rdc e)) (stale w)
  | _ => w
  end.

Definition exec1 (o : rop) (w : world) : world :=
  match o with
  | IfKillWorkers ops => if killf (cur w) then fold_left (fun w o => prim o w) ops w else w
  | o => prim o w
  end.
Definition exec (ops : list rop) (w : world) : world := fold_left (fun w o => exec1 o w) ops w.

End Sem.

(* the three functions that call each other: two levels of inlining reach primitives (checked by [exits_are_primitive]) *)
Definition flat1 (o : rop) : list rop :=
  match o with
  | JoinInternals => join_executor_internals_ops
  | TerminateBroken => terminate_broken_ops
  | FlagExecutorShuttingDown => flag_executor_shutting_down_ops
  | o => [o]
  end.
Definition flatten (ops : list rop) : list rop := flat_map flat1 (flat_map flat1 ops).
Definition broken_exit : list rop := flatten run_broken_exit.
Definition normal_exit : list rop := flatten run_normal_exit.

Inductive ev :=
| Start (n : nat)            (* first submit: n workers spawned, manager thread started *)
| Put                        (* first item put on the call queue: the feeder thread starts *)
| Spawn (n : nat)            (* n more workers (respawn after a time-out, resize up) *)
| Crash (i : nat)            (* worker i dies on its own *)
| CleanExit (i : nat)        (* worker i leaves on request / idle time-out; the manager pops, releases and joins it *)
| Poll                       (* exit codes are polled (is_alive / exitcode): zombies get reaped *)
| ShutdownCall (kill : bool)
| ShutdownReturn (wait : bool)
| ManagerExitBroken | ManagerExitNormal
| FeederEnds
| Drop                       (* the user lets go of the executor *)
| NewExecutor.               (* the next life cycle begins (only once the previous one is done) *)

Fixpoint set_nth (l : list pst) (i : nat) (v : pst) : list pst :=
  match l, i with [], _ => [] | _ :: t, 0 => v :: t | h :: t, S i => h :: set_nth t i v end.
Fixpoint del_nth (l : list pst) (i : nat) : list pst :=
  match l, i with [], _ => [] | _ :: t, 0 => t | h :: t, S i => h :: del_nth t i end.

Definition quiescent (e : ex) : bool :=
  negb (mgr_run (mgr e) && (shut e || negb (user e))) && negb (match feeder e with FStop => true | _ => false end).
Definition done (e : ex) : bool := negb (user e) && quiescent e.

Definition drops (wait : bool) (m : tstate) : bool :=
  match shutdown_drop with
  | DropAlways => true | DropNever => false
  | DropIfWaitOrNeverStarted => wait || match m with TNone => true | _ => false end
  end.

(* total: an event that is not enabled leaves the world as it is *)
Definition step (psutil : bool) (w : world) (v : ev) : world :=
  let e := cur w in
  match v with
  | Start n =>
      match mgr e with
      | TNone => if shut e || negb (user e) then w else
                   mkw (mkex (user e) (refs e) TRun (feeder e) (repeat Alive n) (shut e) (killf e) (cqc e) (rqc e) (wkc e) (stuck e) (rdc e))
                       (match n with 0 => stale w | _ => [] end)
      | _ => w end
  | Put => if mgr_run (mgr e) && negb (cqc e) && match feeder e with FNone => true | _ => false end
           then mkw (set_feeder e FRun) (stale w) else w
  | Spawn n => if mgr_run (mgr e) then mkw (set_table e (table e ++ repeat Alive n)) (match n with 0 => stale w | _ => [] end) else w
  | Crash i => match nth_error (table e) i with
               | Some Alive => mkw (set_table e (set_nth (table e) i Zombie)) (stale w)
               | _ => w end
  | CleanExit i => if mgr_run (mgr e) && clean_exit_pops_releases_joins
                   then match nth_error (table e) i with
                        | Some Alive => mkw (set_table e (del_nth (table e) i)) (stale w)
                        | _ => w end
                   else w
  | Poll => mkw (set_table e (map (fun p => match p with Zombie => Reaped | p => p end) (table e))) (stale w)
  | ShutdownCall kill =>
      if user e then mkw (mkex true (refs e) (mgr e) (feeder e) (table e) true (killf e || kill) (cqc e) (rqc e) (wkc e) (stuck e) (rdc e)) (stale w)
      else w
  | ShutdownReturn wait =>
      if user e && shut e && negb (wait && shutdown_joins_manager_when_wait && mgr_run (mgr e))
      then mkw (mkex true (refs e && negb (drops wait (mgr e))) (mgr e) (feeder e) (table e) true (killf e) (cqc e) (rqc e) (wkc e) (stuck e) (rdc e))
               (stale w)
      else w
  | ManagerExitBroken =>
      if mgr_run (mgr e) then
        let w1 := if broken_by_sentinel_polls_exit_codes
                  then mkw (set_table e (map (fun p => match p with Zombie => Reaped | p => p end) (table e))) (stale w) else w in
        let w2 := exec psutil broken_exit w1 in
        mkw (set_mgr (cur w2) TEnd) (stale w2)
      else w
  | ManagerExitNormal =>
      if mgr_run (mgr e) && (shut e || negb (user e)) then
        let w2 := exec psutil normal_exit w in
        mkw (set_mgr (cur w2) TEnd) (stale w2)
      else w
  | FeederEnds => match feeder e with FStop => mkw (set_feeder e FEnd) (stale w) | _ => w end
  | Drop => mkw (mkex false (refs e) (mgr e) (feeder e) (table e) (shut e) (killf e) (cqc e) (rqc e) (wkc e) (stuck e) (rdc e)) (stale w)
  | NewExecutor => if done e then mkw fresh (stale w ++ table e) else w
  end.

Definition run (psutil : bool) (vs : list ev) (w : world) : world := fold_left (step psutil) vs w.
Definition world0 : world := mkw fresh [].

(* ---- the ledger ---- *)
Record counts := mkc { fds : nat; threads : nat; children : nat; sems : nat }.
Definition b2n (b : bool) := if b then 1 else 0.
Definition ledger (w : world) : counts :=
  let e := cur w in
  let rq := (user e && refs e) || mgr_run (mgr e) in           (* queues / wake-up / lock reachable *)
  let cq := rq || (feeder_live (feeder e) && feeder_thread_holds_queue) in   (* the feeder thread keeps the call queue alive *)
  let procs := table e ++ stale w in
  (* call queue: close() only tells the feeder to stop; the feeder closes the write end when it stops; the read end goes with
     the queue object.  result queue (SimpleQueue) and wake-up pipe: close() closes both ends. *)
  mkc (b2n (cq && negb (rdc e)) + b2n (cq && negb (cqc e && match feeder e with FEnd => true | _ => false end))
       + 2 * b2n (rq && negb (rqc e)) + 2 * b2n (rq && negb (wkc e))
       + length procs)
      (b2n (mgr_run (mgr e)) + b2n (feeder_live (feeder e)))
      (length (filter (fun p => negb (is_reaped p)) procs))
      (3 * b2n cq + 2 * b2n rq + b2n rq + length procs).
