(* C14: loky's Event = a Condition and a flag semaphore.  The four method bodies are Gen/Event.v (regenerated from the source);
   this file interleaves them: any number of threads / processes call is_set, set, clear, wait(timeout or None); a caller of
   wait may be suspended in cond.wait and is resumed when a notify_all reached it or, if it gave a timeout, at any moment.
   What the Condition guarantees (wait returns holding the lock, notify_all wakes every registered waiter) is proved on
   Model/Cond.v; here it is the meaning of CondWait / NotifyAll.  Definitions only; proofs in Proofs/EventThm.v. *)
From Coq Require Import List Bool Arith.
From LokyV Require Import Lib.EventLib Gen.Event.
Import ListNotations.

Inductive meth := MIsSet | MSet | MClear | MWait (timed : bool).
Definition prog_of (m : meth) : list eop :=
  match m with MIsSet => is_set_prog | MSet => set_prog | MClear => clear_prog | MWait _ => wait_prog end.
Definition timed_of (m : meth) : bool := match m with MWait b => b | _ => false end.

Record tst := mkt { woken : bool; tmeth : meth; cont : list eop }.      (* a thread suspended in cond.wait *)
Record est := mke { flag : nat; thr : list (nat * tst) }.
Definition est0 : est := mke 0 [].

Inductive ev := Call (t : nat) (m : meth) | Resume (t : nat).
Inductive out :=
| ORet (t : nat) (m : meth) (r : option bool)
| OSleep (t : nat)
| ONone                       (* the event is not enabled *)
| OStuck.

Fixpoint find (t : nat) (l : list (nat * tst)) : option tst :=
  match l with [] => None | (x, s) :: r => if Nat.eqb x t then Some s else find t r end.
Fixpoint remove (t : nat) (l : list (nat * tst)) : list (nat * tst) :=
  match l with [] => [] | (x, s) :: r => if Nat.eqb x t then remove t r else (x, s) :: remove t r end.
Definition wake_all (l : list (nat * tst)) : list (nat * tst) :=
  map (fun p => (fst p, mkt true (tmeth (snd p)) (cont (snd p)))) l.

Definition fuel := 50.
Definition apply_res (t : nat) (m : meth) (fl : nat) (others : list (nat * tst)) (r : eres) (dflt : est) : est * out :=
  let others1 := if rnotified r then wake_all others else others in
  match rout r with
  | Done v => (mke (rflag r) others1, ORet t m v)
  | Susp k => (mke (rflag r) ((t, mkt false m k) :: others1), OSleep t)
  | Stuck => (dflt, OStuck)
  end.

Definition step (s : est) (e : ev) : est * out :=
  match e with
  | Call t m => match find t (thr s) with
                | Some _ => (s, ONone)                       (* that thread is asleep inside wait *)
                | None => apply_res t m (flag s) (thr s) (exec fuel (prog_of m) (flag s) false) s
                end
  | Resume t => match find t (thr s) with
                | Some st => if woken st || timed_of (tmeth st)
                             then apply_res t (tmeth st) (flag s) (remove t (thr s)) (exec fuel (cont st) (flag s) false) s
                             else (s, ONone)                 (* an untimed waiter nobody notified stays asleep *)
                | None => (s, ONone)
                end
  end.

Fixpoint run (es : list ev) (s : est) : est * list out :=
  match es with
  | [] => (s, [])
  | e :: r => let (s1, o) := step s e in let (s2, os) := run r s1 in (s2, o :: os)
  end.
Definition reach (s : est) : Prop := exists es, fst (run es est0) = s.
