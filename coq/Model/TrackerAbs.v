(* Abstract reference-count machine for the resource tracker: the specification that
   C11 is stated against.  A state is a count per (type, name); a request stream is a
   list of parsed requests.  Short enough to read in a minute. *)
From Coq Require Import List String Ascii ZArith Bool.
From LokyV Require Import Lib.PyLib.
Import ListNotations.
Open Scope string_scope.

Definition key := (string * string)%type.            (* (resource type, name) *)
Definition key_eqb (a b : key) : bool :=
  String.eqb (fst a) (fst b) && String.eqb (snd a) (snd b).

Inductive req :=
| Probe                 (* liveness probe: ignored *)
| Reg (k : key)         (* REGISTER of a known type *)
| Unreg (k : key)       (* UNREGISTER of a known type *)
| Maybe (k : key)       (* MAYBE_UNLINK of a known type *)
| Bad.                  (* undecodable / truncated / unknown command / unknown type *)

Inductive out := Cleanup (k : key) | Report.

Definition counts := key -> nat.
Definition zero : counts := fun _ => 0.
Definition upd (c : counts) (k : key) (v : nat) : counts :=
  fun k' => if key_eqb k' k then v else c k'.

Definition astep (c : counts) (r : req) : counts * list out :=
  match r with
  | Probe => (c, [])
  | Bad => (c, [Report])
  | Reg k => (upd c k (S (c k)), [])
  | Unreg k => match c k with 0 => (c, [Report]) | S _ => (upd c k 0, []) end
  | Maybe k =>
      match c k with
      | 0 => (c, [Report])                 (* never registered / already gone *)
      | 1 => (upd c k 0, [Cleanup k])      (* the request that brings the count to zero *)
      | S n => (upd c k n, [])
      end
  end.

(* per-request outputs and final counts *)
Fixpoint arun (c : counts) (rs : list req) : list (list out) * counts :=
  match rs with
  | [] => ([], c)
  | r :: rs' => let '(c', o) := astep c r in
                let '(os, cf) := arun c' rs' in (o :: os, cf)
  end.

(* count in force just before request number i *)
Fixpoint count_before (c : counts) (rs : list req) (i : nat) : counts :=
  match i, rs with
  | S i', r :: rs' => count_before (fst (astep c r)) rs' i'
  | _, _ => c
  end.
