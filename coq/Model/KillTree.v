(* What kill_process_tree does to a worker's process tree (C06: "every worker together with all of its descendant processes is killed
   and reaped ... every nesting depth ... with and without psutil").

   A process tree is a rose tree of pids.  A node carries a flag [late]: it was forked by its parent AFTER the killer looked at that
   parent's children (psutil-less path: after `pgrep -P parent`; psutil path: after the one snapshot taken at the start) and before
   the parent was killed.  The programs are the GENERATED statement lists of Gen/KillTree.v; this file gives each statement its effect:
   which pids receive SIGKILL, in which order.  Definitions only; proofs in Proofs/KillTreeThm.v.

   Operating-system facts used (oracles): `pgrep -P p` lists the children p has at that moment; the children of a dead process are
   re-parented (no longer listed under it); psutil's children(recursive=True) is the stack walk of psutil/__init__.py over ONE snapshot
   of the process table (a parent is always appended before its children).  checks/killtree.py runs the real functions of
   loky/backend/utils.py on a scripted process table with exactly these answers and compares the order of kills. *)
From Coq Require Import List Arith Bool.
From LokyV Require Import Lib.KillTreeLib.
Import ListNotations.

Inductive ptree := PNode (p : nat) (late : bool) (cs : list ptree).
Definition root (t : ptree) : nat := match t with PNode p _ _ => p end.
Definition is_late (t : ptree) : bool := match t with PNode _ l _ => l end.
Definition children (t : ptree) : list ptree := match t with PNode _ _ cs => cs end.

Fixpoint pids (t : ptree) : list nat := match t with PNode p _ cs => p :: flat_map pids cs end.
Fixpoint subtrees (t : ptree) : list ptree := match t with PNode _ _ cs => t :: flat_map subtrees cs end.
Definition descendants (t : ptree) : list nat := flat_map pids (children t).
Fixpoint no_late (t : ptree) : bool := match t with PNode _ l cs => negb l && forallb no_late cs end.

(* the processes the killer can see: late children (and all below them) are not there when it looks *)
Fixpoint prune (t : ptree) : ptree :=
  match t with PNode p l cs => PNode p l (flat_map (fun c => if is_late c then [] else [prune c]) cs) end.

(* x occurs before y *)
Definition before (l : list nat) (x y : nat) : Prop := exists l1 l2 l3, l = l1 ++ x :: l2 ++ y :: l3.

(* ---- the specification: children first ---- *)
Fixpoint postorder (t : ptree) : list nat := match t with PNode p _ cs => flat_map postorder cs ++ [p] end.

(* ---- _posix_recursive_kill ---- *)
(* [sub] = the kills the recursive calls on the listed children perform; [have] = the listing was made (while this process was alive) *)
Fixpoint interp_p (prog : list pstmt) (p : nat) (sub : list nat) (have alive : bool) : list nat :=
  match prog with
  | [] => []
  | PListChildrenOf :: k => interp_p k p sub alive alive
  | PRecurseIntoEach :: k => (if have then sub else []) ++ interp_p k p sub false alive
  | PKillSelf :: k => p :: interp_p k p sub have false
  end.
Fixpoint exec_posix (prog : list pstmt) (t : ptree) : list nat :=
  match t with
  | PNode p _ cs => interp_p prog p (flat_map (fun c => if is_late c then [] else exec_posix prog c) cs) false true
  end.

(* ---- psutil's children(recursive=True): the stack walk ---- *)
Fixpoint psutil_listing (t : ptree) : list nat :=
  match t with PNode _ _ cs => map root cs ++ fold_right (fun c acc => acc ++ psutil_listing c) [] cs end.

(* ---- _kill_process_tree_with_psutil ---- *)
Record uout := mku { ukills : list nat; ujoined : bool }.
Fixpoint interp_u (prog : list ustmt) (listing : list nat) (rootp : nat) (root_alive : bool) (snap : list nat) : uout :=
  match prog with
  | [] => mku [] false
  | USnapshotDescendantsOrReturn :: k => if root_alive then interp_u k listing rootp root_alive listing else mku [] false
  | UKillEachReversed :: k => let o := interp_u k listing rootp root_alive snap in mku (rev snap ++ ukills o) (ujoined o)
  | UKillRoot :: k => let o := interp_u k listing rootp root_alive snap in mku (rootp :: ukills o) (ujoined o)
  | UJoinRoot :: k => let o := interp_u k listing rootp root_alive snap in mku (ukills o) true
  end.
Definition exec_psutil (prog : list ustmt) (t : ptree) : uout := interp_u prog (psutil_listing (prune t)) (root t) true [].

(* ---- the psutil-less wrapper: the platform kill may fail (no pgrep, ...) ---- *)
Fixpoint interp_w (prog : list wstmt) (posix_kills : list nat) (rootp : nat) (fails failed : bool) : uout :=
  match prog with
  | [] => mku [] false
  | WTryPlatformKill :: k => let o := interp_w k posix_kills rootp fails fails in mku ((if fails then [] else posix_kills) ++ ukills o) (ujoined o)
  | WOnErrorWarnAndKillRootOnly :: k => let o := interp_w k posix_kills rootp fails failed in mku ((if failed then [rootp] else []) ++ ukills o) (ujoined o)
  | WJoinRoot :: k => let o := interp_w k posix_kills rootp fails failed in mku (ukills o) true
  end.
Definition exec_nopsutil (wprog : list wstmt) (pprog : list pstmt) (t : ptree) (fails : bool) : uout :=
  interp_w wprog (exec_posix pprog t) (root t) fails false.

Definition survivors (kills : list nat) (t : ptree) : list nat := filter (fun x => negb (existsb (Nat.eqb x) kills)) (pids t).
