(* C20 / C06: what becomes of the call queue's feeder thread when the workers are killed (forced shutdown, broken pool).
   The feeder writes pickled call items into a pipe; a write blocks while the pipe is full and fails with EPIPE -- which the call
   queue ignores, the thread then ends -- only when NO read end of the pipe is open any more.  The workers hold read ends; so does
   the parent (Queue._reader), although it never reads.  Queue.close() merely appends a sentinel to the feeder's buffer, which a
   feeder blocked in a write never gets to see.  Whether kill_workers() closes the parent's read end once every worker is dead is
   read off the source (Gen/Ledger.v: kill_workers_closes_the_call_queue_reader); on the pinned source it did not: finding H17 (one
   feeder thread, its queue, 2 descriptors and 3 semaphores leaked per forced shutdown with a large task in flight), fixed.
   Definitions only; proofs in Proofs/FeederPipeThm.v. *)
From Coq Require Import List Arith Bool.
Import ListNotations.

Inductive fth := Idle | Blocked | Ended.      (* Blocked: inside send_bytes on a full pipe *)
Record fp := mkfp {
  th : fth;
  backlog : nat;            (* items still in the feeder's buffer (the sentinel of close() not counted) *)
  closing : bool;           (* Queue.close() was called: the sentinel is in the buffer *)
  room : nat;               (* free room in the pipe, in items *)
  readers : nat;            (* live workers (each holds a read end and may read) *)
  parent_reader : bool      (* the parent's own handle of the read end is open *)
}.

Inductive ev :=
| FeederStep               (* the feeder thread does what it can *)
| WorkerReads              (* a live worker takes an item out of the pipe *)
| KillAll                  (* kill_workers(): every worker is killed (their read ends close) *)
| CloseQueue.              (* call_queue.close() *)

Definition no_reader (s : fp) : bool := Nat.eqb (readers s) 0 && negb (parent_reader s).

Definition step (kill_closes_reader : bool) (s : fp) (e : ev) : fp :=
  match e with
  | FeederStep =>
      match th s with
      | Ended => s
      | Blocked =>
          if no_reader s then mkfp Ended (backlog s) (closing s) (room s) (readers s) (parent_reader s)         (* EPIPE, ignored *)
          else match room s with
               | S r => mkfp Idle (backlog s) (closing s) r (readers s) (parent_reader s)                       (* the write completes *)
               | 0 => s                                                                                          (* still blocked *)
               end
      | Idle =>
          match backlog s with
          | S b => if no_reader s then mkfp Ended b (closing s) (room s) (readers s) (parent_reader s)
                   else match room s with
                        | S r => mkfp Idle b (closing s) r (readers s) (parent_reader s)
                        | 0 => mkfp Blocked b (closing s) 0 (readers s) (parent_reader s)
                        end
          | 0 => if closing s then mkfp Ended 0 true (room s) (readers s) (parent_reader s) else s               (* sentinel: close, return *)
          end
      end
  | WorkerReads => match readers s with
                   | S _ => mkfp (th s) (backlog s) (closing s) (S (room s)) (readers s) (parent_reader s)
                   | 0 => s end
  | KillAll => mkfp (th s) (backlog s) (closing s) (room s) 0 (parent_reader s && negb kill_closes_reader)
  | CloseQueue => mkfp (th s) (backlog s) true (room s) (readers s) (parent_reader s)
  end.
Definition run (k : bool) (es : list ev) (s : fp) : fp := fold_left (step k) es s.
