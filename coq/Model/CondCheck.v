(* Trace validation for Model/Cond.v: each observable change (lock holder, the three semaphore values) made by
   a thread of the real Condition code must be explained by that thread's model steps. *)
From Coq Require Import List Arith Bool.
From LokyV Require Import Model.Cond.
Import ListNotations.

Record obs := mkobs { o_lock : option tid; o_sleeping : nat; o_woken : nat; o_wsem : nat }.
Definition observe (s : state) : obs := mkobs (lock s) (sleeping s) (woken s) (wsem s).
Definition oeqb (a b : option nat) : bool :=
  match a, b with Some x, Some y => Nat.eqb x y | None, None => true | _, _ => false end.
Definition obs_eqb (a b : obs) : bool :=
  oeqb (o_lock a) (o_lock b) && Nat.eqb (o_sleeping a) (o_sleeping b) && Nat.eqb (o_woken a) (o_woken b)
  && Nat.eqb (o_wsem a) (o_wsem b).

Definition pc_eqb (a b : pc) : bool :=
  match a, b with
  | Idle, Idle | Hold, Hold | NDone, NDone | AssertFailed, AssertFailed => true
  | WReg x, WReg y | WBlocked x, WBlocked y | NStart x, NStart y | NCancel x, NCancel y | NCancel2 x, NCancel2 y => Bool.eqb x y
  | WPassed x g, WPassed y h | WRelock x g, WRelock y h | WDone x g, WDone y h => Bool.eqb x y && Bool.eqb g h
  | NGrab x n, NGrab y m | NPost x n, NPost y m | NDrain x n, NDrain y m => Bool.eqb x y && Nat.eqb n m
  | NWait x p k, NWait y q j => Bool.eqb x y && Nat.eqb p q && Nat.eqb k j
  | _, _ => false end.
Fixpoint thr_eqb (a b : list (tid * pc)) : bool :=
  match a, b with
  | [], [] => true
  | (t, c) :: a', (u, d) :: b' => Nat.eqb t u && pc_eqb c d && thr_eqb a' b'
  | _, _ => false end.
Definition state_eqb (a b : state) : bool :=
  obs_eqb (observe a) (observe b) && thr_eqb (thr a) (thr b).

Definition labels_of (t : tid) : list label :=
  [Acquire t; Release t; StartWait t true; StartWait t false; StartNotify t true; StartNotify t false;
   Step t; Timeout t; Finish t].
Definition succs (s : state) (t : tid) : list state :=
  flat_map (fun l => match step s l with Some s' => [s'] | None => [] end) (labels_of t).
Fixpoint add_new (s : state) (l : list state) : list state :=
  match l with [] => [s] | x :: tl => if state_eqb x s then l else x :: add_new s tl end.
Definition union (a b : list state) : list state := fold_left (fun acc s => add_new s acc) b a.
Fixpoint explain (fuel : nat) (s : state) (t : tid) (o : obs) : list state :=
  match fuel with
  | 0 => []
  | S f => fold_left (fun acc s' =>
                        let here := if obs_eqb (observe s') o then [s'] else [] in
                        union (union acc here) (explain f s' t o)) (succs s t) []
  end.
Definition validate_event (cands : list state) (ev : tid * obs) : list state :=
  fold_left (fun acc s => union acc (explain 4 s (fst ev) (snd ev))) cands [].
Fixpoint validate (cands : list state) (tr : list (tid * obs)) (i : nat) : option nat * list state :=
  match tr with
  | [] => (None, cands)
  | ev :: tl => match validate_event cands ev with
                | [] => (Some i, cands)
                | c' => validate c' tl (S i) end
  end.
(* at the end of a trace: may some thread be in AssertFailed in every candidate? (never, by the theorem) *)
Definition any_assert_failed (cands : list state) : bool :=
  existsb (fun s => existsb (fun tc => pc_eqb (snd tc) AssertFailed) (thr s)) cands.
