(* C10: _resize() as a process interleaved with the workers and the manager thread.
   The program walked by the resizing thread is Gen/Resize.v (regenerated from the source); this file says what each instruction
   and each environment event means for a counter abstraction of the pool: how many registered workers are alive, have left
   (announced, not yet reaped), have died (not yet detected); how many futures are unresolved; how many sentinels sit in the call
   queue.  Definitions only; proofs in Proofs/ResizeThm.v. *)
From Coq Require Import List Arith Bool.
From LokyV Require Import Lib.ResizeLib Gen.Resize.
Import ListNotations.

Record rs := mk {
  maxw : nat;
  al : nat; ex : nat; de : nat;          (* registered workers: alive / exited cleanly, not reaped / dead, not detected *)
  pending : nat; sent : nat;             (* unresolved futures; sentinels in the call queue *)
  broken : bool; started : bool; mlock : bool;
  pc : option (list rz);                 (* the resize call in progress: what is left of its (flattened) program *)
  rnew : option nat; rsnap : nat;
  (* ghost, reset when a call begins *)
  faults : nat;                          (* idle exits and deaths since the call began *)
  spawned : nat; left : nat;             (* workers started by the call / that left on one of its sentinels *)
  bad : bool;                            (* sentinels were posted while a future was unresolved *)
  raised : bool;
  clean0 : bool                          (* when the call began nobody had left unreaped, nobody was dead undetected, no sentinel was queued *)
}.

Definition len (s : rs) := al s + ex s + de s.
Definition newv (s : rs) := match rnew s with Some n => n | None => 0 end.
Definition prog : list rz := flatten resize_prog.

Inductive ev :=
| Call (n : option nat)       (* get_reusable_executor -> executor._resize(n) *)
| RStep                       (* the resizing thread executes its next instruction (if it is not blocked) *)
| Submit                      (* only outside a resize call: submit holds the same lock *)
| Complete | TakeSentinel | IdleExit | Crash | Reap | Detect.

Definition set_pc s p := mk (maxw s) (al s) (ex s) (de s) (pending s) (sent s) (broken s) (started s) (mlock s) p (rnew s) (rsnap s)
                            (faults s) (spawned s) (left s) (bad s) (raised s) (clean0 s).

(* one instruction; None = blocked *)
Definition instr (i : rz) (rest : list rz) (s : rs) : option rs :=
  match i with
  | ZRaiseIfNone => match rnew s with
                    | None => Some (mk (maxw s) (al s) (ex s) (de s) (pending s) (sent s) (broken s) (started s) (mlock s) None (rnew s)
                                       (rsnap s) (faults s) (spawned s) (left s) (bad s) true (clean0 s))
                    | Some _ => Some (set_pc s (Some rest)) end
  | ZReturnIfSame => if Nat.eqb (newv s) (maxw s) then Some (set_pc s None) else Some (set_pc s (Some rest))
  | ZIfNotStarted l => if started s then Some (set_pc s (Some rest)) else Some (set_pc s (Some (l ++ rest)))
  | ZSetMax => Some (mk (newv s) (al s) (ex s) (de s) (pending s) (sent s) (broken s) (started s) (mlock s) (Some rest) (rnew s)
                        (rsnap s) (faults s) (spawned s) (left s) (bad s) (raised s) (clean0 s))
  | ZReturn => Some (set_pc s None)
  | ZWaitJobs => if wait_job_completion_waits_until_nothing_is_pending && negb (Nat.eqb (pending s) 0) then None
                 else Some (set_pc s (Some rest))
  | ZAcquire => if mlock s then None
                else Some (mk (maxw s) (al s) (ex s) (de s) (pending s) (sent s) (broken s) (started s) true (Some rest) (rnew s)
                              (rsnap s) (faults s) (spawned s) (left s) (bad s) (raised s) (clean0 s))
  | ZRelease => Some (mk (maxw s) (al s) (ex s) (de s) (pending s) (sent s) (broken s) (started s) false (Some rest) (rnew s)
                         (rsnap s) (faults s) (spawned s) (left s) (bad s) (raised s) (clean0 s))
  | ZSnapshotAlive => Some (mk (maxw s) (al s) (ex s) (de s) (pending s) (sent s) (broken s) (started s) (mlock s) (Some rest) (rnew s)
                               (al s) (faults s) (spawned s) (left s) (bad s) (raised s) (clean0 s))
  | ZPostSentinels => Some (mk (maxw s) (al s) (ex s) (de s) (pending s) (sent s + (rsnap s - newv s)) (broken s) (started s) (mlock s)
                               (Some rest) (rnew s) (rsnap s) (faults s) (spawned s) (left s)
                               (bad s || negb (Nat.eqb (pending s) 0)) (raised s) (clean0 s))
  | ZWaitShrunk => if Nat.ltb (newv s) (len s) && negb (broken s) then None else Some (set_pc s (Some rest))
  | ZAdjust => let k := maxw s - len s in
               Some (mk (maxw s) (al s + k) (ex s) (de s) (pending s) (sent s) (broken s) (started s) (mlock s) (Some rest) (rnew s)
                        (rsnap s) (faults s) (spawned s + k) (left s) (bad s) (raised s) (clean0 s))
  | ZAdjustIfLive => if broken s then Some (set_pc s (Some rest)) else
               let k := maxw s - len s in
               Some (mk (maxw s) (al s + k) (ex s) (de s) (pending s) (sent s) (broken s) (started s) (mlock s) (Some rest) (rnew s)
                        (rsnap s) (faults s) (spawned s + k) (left s) (bad s) (raised s) (clean0 s))
  | ZWaitAllAlive => if negb (broken s) && negb (Nat.eqb (ex s + de s) 0) then None else Some (set_pc s (Some rest))
  | ZLocked _ => None          (* never present after flattening *)
  | ZWakeManager => Some (set_pc s (Some rest))    (* dropped by flattening *)
  end.

(* total: an event that is not enabled leaves the state as it is *)
Definition step (s : rs) (e : ev) : rs :=
  match e with
  | Call n => match pc s with
              | None => if match n with Some 0 => true | _ => false end then s       (* the factory rejects max_workers <= 0 *)
                        else mk (maxw s) (al s) (ex s) (de s) (pending s) (sent s) (broken s) (started s) (mlock s) (Some prog) n (rsnap s)
                                0 0 0 false false (Nat.eqb (ex s + de s + sent s) 0)
              | Some _ => s end
  | RStep => match pc s with
             | Some (i :: rest) => match instr i rest s with Some s' => s' | None => s end
             | Some [] => set_pc s None
             | None => s end
  | Submit => if broken s then s else
                if match pc s with Some _ => submit_is_excluded_during_resize | None => false end then s else
                  let k := maxw s - len s in
                  mk (maxw s) (al s + k) (ex s) (de s) (S (pending s)) (sent s) (broken s) true (mlock s) (pc s) (rnew s) (rsnap s)
                     (faults s) (spawned s) (left s) (bad s) (raised s) (clean0 s)
  | Complete => match al s, pending s with
                | S _, S p => mk (maxw s) (al s) (ex s) (de s) p (sent s) (broken s) (started s) (mlock s) (pc s) (rnew s) (rsnap s)
                                 (faults s) (spawned s) (left s) (bad s) (raised s) (clean0 s)
                | _, _ => s end
  | TakeSentinel => match al s, sent s with
                    | S a, S n => mk (maxw s) a (S (ex s)) (de s) (pending s) n (broken s) (started s) (mlock s) (pc s) (rnew s) (rsnap s)
                                     (faults s) (spawned s) (S (left s)) (bad s) (raised s) (clean0 s)
                    | _, _ => s end
  | IdleExit => match al s with
                | S a => if idle_exit_gives_up_when_the_management_lock_is_taken && mlock s then s
                         else mk (maxw s) a (S (ex s)) (de s) (pending s) (sent s) (broken s) (started s) (mlock s) (pc s) (rnew s) (rsnap s)
                                 (S (faults s)) (spawned s) (left s) (bad s) (raised s) (clean0 s)
                | 0 => s end
  | Crash => match al s with
             | S a => mk (maxw s) a (ex s) (S (de s)) (pending s) (sent s) (broken s) (started s) (mlock s) (pc s) (rnew s) (rsnap s)
                         (S (faults s)) (spawned s) (left s) (bad s) (raised s) (clean0 s)
             | 0 => s end
  | Reap => match ex s with
            | S e' => if mlock s then s else
                        (* the manager pops and joins it; if work is waiting it tops the pool up *)
                        let k := if Nat.eqb (pending s) 0 then 0 else maxw s - (al s + e' + de s) in
                        mk (maxw s) (al s + k) e' (de s) (pending s) (sent s) (broken s) (started s) (mlock s) (pc s) (rnew s) (rsnap s)
                           (faults s) (spawned s) (left s) (bad s) (raised s) (clean0 s)
            | 0 => s end
  | Detect => match de s with
              | S _ => if broken s then s else
                         (* terminate_broken: every unresolved future fails, every worker is killed *)
                         mk (maxw s) 0 0 0 0 (sent s) true (started s) (mlock s) (pc s) (rnew s) (rsnap s)
                            (faults s) (spawned s) (left s) (bad s) (raised s) (clean0 s)
              | 0 => s end
  end.

Definition run (es : list ev) (s : rs) : rs := fold_left step es s.

(* a healthy, started pool of n workers with p unresolved futures, nobody resizing *)
Definition pool (n p : nat) : rs := mk n n 0 0 p 0 false true false None None 0 0 0 0 false false true.

(* the resizing thread is blocked on an instruction *)
Definition blocked (s : rs) : bool :=
  match pc s with Some (i :: rest) => match instr i rest s with None => true | Some _ => false end | _ => false end.
