(* C06 / finding H10: the processes management lock against loky's own kills.  An idle worker on its time-out exit path probes the
   lock (acquire(block=False) immediately followed by release: Proofs/WorkerThm.management_lock_is_only_probed); the manager
   SIGKILLs every worker in kill_workers() and afterwards needs the lock itself in shutdown_workers().  A process killed while it
   holds the lock keeps it for ever.  Whether kill_workers() holds the lock while it kills is read off the source
   (Gen/Ledger.v: kill_workers_holds_the_management_lock).  Definitions only; proofs in Proofs/KillLockThm.v. *)
From Coq Require Import List Bool Arith.
From LokyV Require Import Lib.LedgerLib Gen.Ledger.
Import ListNotations.

Inductive holder := Free | ByLive | ByDead.          (* ByLive: an alive worker between its acquire and its release *)
Record ks := mkk { hold : holder; alive : nat; killed_all : bool }.
Definition ks0 (n : nat) : ks := mkk Free n false.

Inductive ev :=
| Probe              (* an alive idle worker takes the lock on its exit path *)
| Release            (* ... and releases it: the very next thing it does *)
| MgrKillAll         (* the manager thread runs kill_workers() *)
| ExtKillHolder      (* somebody outside loky SIGKILLs the worker that holds the lock (finding H5) *)
| ExtKillOther.

Definition step_with (locked : bool) (s : ks) (e : ev) : ks :=
  match e with
  | Probe => match hold s, alive s with Free, S _ => mkk ByLive (alive s) (killed_all s) | _, _ => s end
  | Release => match hold s with ByLive => mkk Free (alive s) (killed_all s) | _ => s end
  | MgrKillAll =>
      if locked then match hold s with
                     | Free => mkk Free 0 true                 (* lock taken, everybody killed, lock released *)
                     | _ => s                                  (* blocked until the holder releases *)
                     end
      else mkk (match hold s with ByLive => ByDead | h => h end) 0 true
  | ExtKillHolder => match hold s, alive s with ByLive, S n => mkk ByDead n (killed_all s) | _, _ => s end
  | ExtKillOther => match alive s with
                    | S n => match hold s, n with ByLive, 0 => s | _, _ => mkk (hold s) n (killed_all s) end    (* not the holder *)
                    | 0 => s end
  end.
Definition step := step_with kill_workers_holds_the_management_lock.
Definition run (es : list ev) (s : ks) : ks := fold_left step es s.
Definition external (e : ev) : bool := match e with ExtKillHolder | ExtKillOther => true | _ => false end.
(* what shutdown_workers() needs next *)
Definition manager_can_take_the_lock (s : ks) : bool := match hold s with Free => true | _ => false end.
