(* How many tasks run at the same time when the call queue has fewer slots than the pool has workers (C08 "delivered", finding H19).

   The manager thread moves work ids from the backlog into the call queue while the queue has a free slot, then sleeps until a
   *result* or a wake-up (submit, shutdown, ...) arrives.  A worker that takes an item out of the queue frees the slot (it releases
   the queue's semaphore itself) but tells nobody.  Counters only:

      b  work items submitted and not yet in the call queue        q  items in the call queue (slots taken)
      r  items being executed (= busy workers)                      d  items done
      w  a wake-up / result is on its way to the manager            act  the manager is between two sleeps

   cap = slots of the call queue, W = workers.  [wot] ("wake on take") is the repair direction: a worker taking an item also wakes the
   manager; it is false for loky.  Definitions only; proofs in Proofs/QueueCapThm.v.

   Hand-written from process_executor.py (_ExecutorManagerThread.run / add_call_item_to_queue, _process_worker: `call_queue.get` then
   `_rlock`-free semaphore release in loky.backend.queues.Queue.get).  Tie: simulation families saturate / satreuse count the tasks
   really running at quiescence; the generated fact of Gen/Resize.v says which capacity the reusable executor's queue has. *)
From Coq Require Import List Arith Bool.
Import ListNotations.

Record qs := mkq { b : nat; q : nat; r : nat; d : nat; w : bool; act : bool }.
Definition q0 : qs := mkq 0 0 0 0 false false.

Inductive qev :=
| Submit        (* user thread: one more work item, the manager is woken *)
| Wake          (* the manager leaves wait() because something is there *)
| Move          (* add_call_item_to_queue: one id from the backlog into the queue (only when a slot is free) *)
| Sleep         (* the loop of add_call_item_to_queue ends (queue full or backlog empty); the manager goes back to wait() *)
| Take          (* an idle worker takes an item out of the queue and starts it *)
| Finish.       (* a running task ends: its result wakes the manager *)

Definition enabled (cap W : nat) (s : qs) (e : qev) : bool :=
  match e with
  | Submit => true
  | Wake => negb (act s) && w s
  | Move => act s && (0 <? b s) && (q s <? cap)
  | Sleep => act s && ((b s =? 0) || (cap <=? q s))
  | Take => (0 <? q s) && (r s <? W)
  | Finish => 0 <? r s
  end.

Definition step (wot : bool) (cap W : nat) (s : qs) (e : qev) : qs :=
  if enabled cap W s e then
    match e with
    | Submit => mkq (S (b s)) (q s) (r s) (d s) true (act s)
    | Wake => mkq (b s) (q s) (r s) (d s) false true
    | Move => mkq (b s - 1) (S (q s)) (r s) (d s) (w s) (act s)
    | Sleep => mkq (b s) (q s) (r s) (d s) (w s) false
    | Take => mkq (b s) (q s - 1) (S (r s)) (d s) (w s || wot) (act s)
    | Finish => mkq (b s) (q s) (r s - 1) (S (d s)) true (act s)
    end
  else s.

Definition run (wot : bool) (cap W : nat) (es : list qev) (s : qs) : qs := fold_left (step wot cap W) es s.

(* nothing more happens unless a task ends or somebody submits: the manager sleeps with nothing on its way, no worker can take *)
Definition settled (cap W : nat) (s : qs) : bool :=
  negb (enabled cap W s Wake) && negb (enabled cap W s Move) && negb (enabled cap W s Sleep) && negb (enabled cap W s Take).

Definition unfinished (s : qs) : nat := b s + q s + r s.
