(* C01: no circular wait among the threads of the parent process.
   A configuration says, for each thread, which locks it holds and which lock (or pseudo-lock: the end of a thread or a process,
   the progress of the manager thread) it is waiting for.  A set of threads is deadlocked when each of them waits for something held
   by another member of the set.  If every thread enters locks in increasing rank -- whatever it waits for ranks above everything it
   holds -- no deadlocked set exists.  Gen/LockOrder.v is the relation "entered while held" read off the source (every `with`, every
   blocking acquire / join / put / polling loop / completion of a future, transitively through calls) together with a rank
   certificate; the certificate is checked against the relation by computation.
   Excluded edge (known finding H15): a done-callback that submits to a REUSABLE executor needs its _submit_resize_lock, which is
   the factory lock itself (generated fact); a concurrent get_reusable_executor() holds that lock while it waits for the manager
   thread (shrinking _resize: polling; replacement: shutdown(wait=True) joins it) -- the thread that runs the callback.
   Definitions only; proofs in Proofs/LockOrderThm.v. *)
From Coq Require Import List Arith Bool.
From LokyV Require Import Lib.LockLib Gen.LockOrder.
Import ListNotations.

Definition excluded : list (lk * lk) := [(UserCb, LSubmitResize); (UserCb, LFactory)].
Definition kept : list (lk * lk) := filter (fun e => negb (edge_in e excluded)) lock_edges.
Definition respects (rank : lk -> nat) (es : list (lk * lk)) : bool := forallb (fun e => Nat.ltb (rank (fst e)) (rank (snd e))) es.

Record thread := mkthread { holds : list lk; wants : option lk }.
(* the discipline: what a thread waits for ranks above everything it holds *)
Definition disciplined (rank : lk -> nat) (t : thread) : Prop :=
  forall h w, In h (holds t) -> wants t = Some w -> rank h < rank w.
(* every member waits for something another member holds *)
Definition deadlocked (d : list thread) : Prop :=
  d <> [] /\ forall t, In t d -> exists w t', wants t = Some w /\ In t' d /\ In w (holds t').

(* a path of the relation *)
Inductive path (es : list (lk * lk)) : lk -> lk -> Prop :=
| path_one a b : In (a, b) es -> path es a b
| path_cons a b c : In (a, b) es -> path es b c -> path es a c.
