(* C02: when does the manager thread notice that a registered worker is dead?  Each time round its loop it sleeps in
   wait(result pipe, wake-up pipe, sentinels of all registered workers) and then decides with the generated program
   Gen/Detect.v: wait_prog (result first, wake-up second, "somebody died" only when neither pipe was reported ready), and drains
   the wake-up pipe.  The sentinel of a dead process stays ready for ever, so a death can be out-prioritised only by messages:
   counters of the messages in the result pipe and of the wake-up bytes, the OS choosing what wait() reports.
   Definitions only; proofs in Proofs/DetectThm.v. *)
From Coq Require Import List Arith Bool.
From LokyV Require Import Lib.DetectLib Gen.Detect.
Import ListNotations.

Definition outcome (e : denv) : dst := drun e wait_prog dst0.
Definition says_broken (e : denv) : bool := match d_broken (outcome e) with Some true => true | _ => false end.

Record det := mkdet {
  msgs : nat;            (* messages waiting in the result pipe *)
  wakes : nat;           (* bytes waiting in the wake-up pipe *)
  dead : bool;           (* some registered worker is dead (its sentinel is ready and stays so) *)
  flagged : bool;        (* the manager has decided "broken" *)
  quiet_rounds : nat     (* rounds made since the death that did not flag the pool *)
}.

Inductive dev :=
| Round (rr wr : bool) (r : recv_out)    (* wait() reports the result pipe (rr) / the wake-up pipe (wr) ready; recv() yields r *)
| MsgArrives | WakeArrives | Death.

Definition pos (n : nat) : bool := negb (Nat.eqb n 0).
(* wait() returns only when something is ready, and reports a pipe only if there is something in it *)
Definition round_possible (s : det) (rr wr : bool) : bool :=
  implb rr (pos (msgs s)) && implb wr (pos (wakes s)) && (rr || wr || dead s) && negb (flagged s).

Definition dstep (s : det) (e : dev) : det :=
  match e with
  | Round rr wr r =>
      if round_possible s rr wr then
        let b := says_broken (mkdenv rr wr r) in
        mkdet (if rr then pred (msgs s) else msgs s) 0 (dead s) b
              (if dead s && negb b then S (quiet_rounds s) else quiet_rounds s)
      else s
  | MsgArrives => mkdet (S (msgs s)) (wakes s) (dead s) (flagged s) (quiet_rounds s)
  | WakeArrives => mkdet (msgs s) (S (wakes s)) (dead s) (flagged s) (quiet_rounds s)
  | Death => mkdet (msgs s) (wakes s) true (flagged s) (quiet_rounds s)
  end.
Definition drun_all (es : list dev) (s : det) : det := fold_left dstep es s.
Definition arrivals (es : list dev) : nat :=
  length (filter (fun e => match e with MsgArrives | WakeArrives => true | _ => false end) es).
Definition backlog (s : det) : nat := msgs s + (if pos (wakes s) then 1 else 0).
