(* Token-flow projection of the executor protocol (C03, C04, C07): where every submitted work item
   is, at the granularity of one mutation of one shared structure per step -- the granularity at which
   CPython can interleave the user threads, the manager thread, the feeder thread and the workers.
   Definitions only (proofs in Proofs/TokenFlowInv.v) so that the model runs even if a proof breaks.

   Hand-written from loky/process_executor.py (submit, add_call_item_to_queue, process_result_item,
   terminate_broken, flag_executor_shutting_down, _on_queue_feeder_error, _process_worker) and
   loky/backend/queues.py (_feed) + multiprocessing.queues.Queue.get/put; tied to the code by trace
   validation (corr/sim): every observable change the real code makes must be a step of this model. *)
From Coq Require Import List Arith Bool.
Import ListNotations.

Definition wid := nat.
Definition pid := nat.
Definition uid := nat.

Inductive fout := Val | TaskExc | SendErr | Broken | ShutErr.
Inductive fstate := FPending | FRunning | FCancelled | FDone (o : fout).
Inductive item := ICall (w : wid) | ISent.
Inductive rmsg := RRes (w : wid) | ROther.

(* what each actor holds in its local variables between two steps *)
Inductive mpc :=
| MIdle
| MGot (w : wid)           (* work_ids.get() returned w *)
| MSkip (w : wid)          (* future was cancelled: about to del pending[w] *)
| MRun (w : wid)           (* set_running_or_notify_cancel() succeeded: about to running += [w] *)
| MPut (i : item)          (* about to acquire a queue slot for i *)
| MBuf (i : item)          (* slot acquired: about to append i to the feeder buffer *)
| MRes1 (w : wid)          (* received a result for w: about to pending.pop(w) *)
| MRes2 (w : wid)          (* popped: about to resolve the future *)
| MRes3 (w : wid)          (* resolved: about to running.remove(w) *)
| MFail (w : wid).          (* kill_workers path: popped w from pending, about to fail it with ShutdownExecutorError *)
Inductive fpc :=
| FIdle
| FHold (i : item)         (* popped from the buffer, not yet sent *)
| FErr1 (w : wid)          (* pickling failed, slot released: about to pending.pop(w) *)
| FErr2 (w : wid) (had : bool)   (* about to running.remove(w) *)
| FErr3 (w : wid) (had : bool).  (* about to fail the future (if it still had the work item) *)
Inductive wpc :=
| WIdle
| WGot (i : item)          (* received, queue slot not yet released *)
| WHold (i : item)         (* slot released *)
| WRan (w : wid)           (* task body executed, result not yet sent *)
| WDead (leak : bool).     (* dead; leak = it died between recv and the release of its queue slot *)
Inductive upc :=
| UIdle
| UHalf (w : wid)          (* pending[w] inserted, work_ids.put(w) not yet done *)
| UPut (i : item) | UBuf (i : item).   (* _resize posting a sentinel through call_queue.put *)

Record state := mk {
  next : wid;
  futs : list (wid * fstate);
  pending : list wid;
  work_ids : list wid;
  running : list wid;
  buffer : list item;
  cpipe : list item;
  rpipe : list rmsg;
  slot : nat;
  executed : list wid;
  mgr : mpc;
  fdr : fpc;
  wrk : list (pid * wpc);
  usr : list (uid * upc)
}.

Definition init (cap : nat) : state :=
  mk 0 [] [] [] [] [] [] [] cap [] MIdle FIdle [] [].

(* ---- helpers ---- *)
Fixpoint lookup {A} (l : list (nat * A)) (k : nat) : option A :=
  match l with [] => None | (k', v) :: tl => if Nat.eqb k k' then Some v else lookup tl k end.
Fixpoint update {A} (l : list (nat * A)) (k : nat) (v : A) : list (nat * A) :=
  match l with
  | [] => [(k, v)]
  | (k', v') :: tl => if Nat.eqb k k' then (k', v) :: tl else (k', v') :: update tl k v
  end.
Fixpoint remove1 (l : list nat) (x : nat) : list nat :=
  match l with [] => [] | y :: tl => if Nat.eqb x y then tl else y :: remove1 tl x end.
Definition memb (l : list nat) (x : nat) : bool := existsb (Nat.eqb x) l.
Definition fut (s : state) (w : wid) : option fstate := lookup (futs s) w.
Definition wpc_of (s : state) (p : pid) : wpc := match lookup (wrk s) p with Some c => c | None => WDead false end.
Definition upc_of (s : state) (u : uid) : upc := match lookup (usr s) u with Some c => c | None => UIdle end.
Definition terminal (f : fstate) : bool :=
  match f with FCancelled | FDone _ => true | _ => false end.

Definition set_futs s v := mk (next s) v (pending s) (work_ids s) (running s) (buffer s) (cpipe s) (rpipe s) (slot s) (executed s) (mgr s) (fdr s) (wrk s) (usr s).
Definition set_pending s v := mk (next s) (futs s) v (work_ids s) (running s) (buffer s) (cpipe s) (rpipe s) (slot s) (executed s) (mgr s) (fdr s) (wrk s) (usr s).
Definition set_work_ids s v := mk (next s) (futs s) (pending s) v (running s) (buffer s) (cpipe s) (rpipe s) (slot s) (executed s) (mgr s) (fdr s) (wrk s) (usr s).
Definition set_running s v := mk (next s) (futs s) (pending s) (work_ids s) v (buffer s) (cpipe s) (rpipe s) (slot s) (executed s) (mgr s) (fdr s) (wrk s) (usr s).
Definition set_buffer s v := mk (next s) (futs s) (pending s) (work_ids s) (running s) v (cpipe s) (rpipe s) (slot s) (executed s) (mgr s) (fdr s) (wrk s) (usr s).
Definition set_cpipe s v := mk (next s) (futs s) (pending s) (work_ids s) (running s) (buffer s) v (rpipe s) (slot s) (executed s) (mgr s) (fdr s) (wrk s) (usr s).
Definition set_rpipe s v := mk (next s) (futs s) (pending s) (work_ids s) (running s) (buffer s) (cpipe s) v (slot s) (executed s) (mgr s) (fdr s) (wrk s) (usr s).
Definition set_slot s v := mk (next s) (futs s) (pending s) (work_ids s) (running s) (buffer s) (cpipe s) (rpipe s) v (executed s) (mgr s) (fdr s) (wrk s) (usr s).
Definition set_executed s v := mk (next s) (futs s) (pending s) (work_ids s) (running s) (buffer s) (cpipe s) (rpipe s) (slot s) v (mgr s) (fdr s) (wrk s) (usr s).
Definition set_mgr s v := mk (next s) (futs s) (pending s) (work_ids s) (running s) (buffer s) (cpipe s) (rpipe s) (slot s) (executed s) v (fdr s) (wrk s) (usr s).
Definition set_fdr s v := mk (next s) (futs s) (pending s) (work_ids s) (running s) (buffer s) (cpipe s) (rpipe s) (slot s) (executed s) (mgr s) v (wrk s) (usr s).
Definition set_wrk s v := mk (next s) (futs s) (pending s) (work_ids s) (running s) (buffer s) (cpipe s) (rpipe s) (slot s) (executed s) (mgr s) (fdr s) v (usr s).
Definition set_usr s v := mk (next s) (futs s) (pending s) (work_ids s) (running s) (buffer s) (cpipe s) (rpipe s) (slot s) (executed s) (mgr s) (fdr s) (wrk s) v.
Definition set_next s v := mk v (futs s) (pending s) (work_ids s) (running s) (buffer s) (cpipe s) (rpipe s) (slot s) (executed s) (mgr s) (fdr s) (wrk s) (usr s).

(* fail every future of [ws] that is not terminal yet (terminate_broken: one uninterrupted loop) *)
Fixpoint fail_all (fs : list (wid * fstate)) (ws : list wid) (o : fout) : list (wid * fstate) :=
  match ws with
  | [] => fs
  | w :: tl =>
      let fs' := match lookup fs w with
                 | Some f => if terminal f then fs else update fs w (FDone o)
                 | None => fs
                 end in
      fail_all fs' tl o
  end.

(* ---- labels ---- *)
Inductive label :=
(* user threads *)
| USubmitA (u : uid)            (* future created, pending[next] = item *)
| USubmitB (u : uid)            (* work_ids.put(w) *)
| UCancel (w : wid)             (* Future.cancel() on a pending future: returns True *)
| UPutStart (u : uid)           (* _resize: call_queue.put(None) begins *)
| UAcqSlot (u : uid)
| UBufAppend (u : uid)
(* manager thread *)
| MTake                         (* work_ids.get(block=False) *)
| MSetRunning                   (* set_running_or_notify_cancel() *)
| MDelPending                   (* del pending[w] for a cancelled item *)
| MAddRunning                   (* running += [w] *)
| MAcqSlot                      (* call_queue._sem.acquire() *)
| MBufAppend                    (* buffer.append(item); notify *)
| MPutSentinel                  (* shutdown_workers: call_queue.put_nowait(None) begins *)
| MRecv                         (* result_reader.recv() *)
| MDropRes                      (* ... whose payload failed to unpickle: the pool is about to break *)
| MPopPending                   (* pending.pop(w, None) *)
| MSetFuture (o : fout)         (* future.set_result / set_exception *)
| MDelRunning                   (* running.remove(w) *)
| MFailAll (o : fout)           (* terminate_broken: fail every pending future *)
| MClear                        (* pending.clear() *)
| MPopFail (o : fout)           (* kill_workers shutdown: pending.popitem() *)
| MFailOne                      (*   ... set_exception(ShutdownExecutorError) *)
(* feeder thread *)
| FPop | FSend
| FErrRelease | FErrPop | FErrRemove | FErrSet
(* workers *)
| WSpawn (p : pid)
| WRecv (p : pid)               (* recv_bytes() *)
| WRelSlot (p : pid)            (* call_queue._sem.release() *)
| WExec (p : pid)               (* the task body runs *)
| WSendRes (p : pid)            (* result_queue.put(_ResultItem) *)
| WSendOther (p : pid)          (* result_queue.put(pid) / put(_RemoteTraceback) *)
| WTakeSentinel (p : pid)       (* the worker consumed a None sentinel *)
| WUnpickleFail (p : pid)       (* the call item failed to unpickle: it is gone (the pool will break) *)
| EKill (p : pid).              (* the worker dies, at any point, with whatever it holds *)

Definition hd_tl {A} (l : list A) : option (A * list A) :=
  match l with [] => None | x :: tl => Some (x, tl) end.

Definition step (s : state) (l : label) : option state :=
  match l with
  | USubmitA u =>
      match upc_of s u with
      | UIdle => let w := next s in
                 Some (set_usr (set_next (set_pending (set_futs s (update (futs s) w FPending))
                                                      (pending s ++ [w])) (S w))
                               (update (usr s) u (UHalf w)))
      | _ => None end
  | USubmitB u =>
      match upc_of s u with
      | UHalf w => Some (set_usr (set_work_ids s (work_ids s ++ [w])) (update (usr s) u UIdle))
      | _ => None end
  | UCancel w =>
      match fut s w with
      | Some FPending => Some (set_futs s (update (futs s) w FCancelled))
      | _ => None end
  | UPutStart u =>
      match upc_of s u with UIdle => Some (set_usr s (update (usr s) u (UPut ISent))) | _ => None end
  | UAcqSlot u =>
      match upc_of s u, slot s with
      | UPut i, S n => Some (set_usr (set_slot s n) (update (usr s) u (UBuf i)))
      | _, _ => None end
  | UBufAppend u =>
      match upc_of s u with
      | UBuf i => Some (set_usr (set_buffer s (buffer s ++ [i])) (update (usr s) u UIdle))
      | _ => None end
  | MTake =>
      match mgr s, work_ids s with
      | MIdle, w :: tl => Some (set_mgr (set_work_ids s tl) (MGot w))
      | _, _ => None end
  | MSetRunning =>
      match mgr s with
      | MGot w =>
          match fut s w with
          | Some FPending => Some (set_mgr (set_futs s (update (futs s) w FRunning)) (MRun w))
          | Some FCancelled => Some (set_mgr s (MSkip w))
          | _ => None end
      | _ => None end
  | MDelPending =>
      match mgr s with MSkip w => Some (set_mgr (set_pending s (remove1 (pending s) w)) MIdle) | _ => None end
  | MAddRunning =>
      match mgr s with MRun w => Some (set_mgr (set_running s (running s ++ [w])) (MPut (ICall w))) | _ => None end
  | MAcqSlot =>
      match mgr s, slot s with
      | MPut i, S n => Some (set_mgr (set_slot s n) (MBuf i))
      | _, _ => None end
  | MBufAppend =>
      match mgr s with MBuf i => Some (set_mgr (set_buffer s (buffer s ++ [i])) MIdle) | _ => None end
  | MPutSentinel =>
      match mgr s with MIdle => Some (set_mgr s (MPut ISent)) | _ => None end
  | MRecv =>
      match mgr s, rpipe s with
      | MIdle, RRes w :: tl => Some (set_mgr (set_rpipe s tl) (MRes1 w))
      | MIdle, ROther :: tl => Some (set_rpipe s tl)
      | _, _ => None end
  | MDropRes =>
      match mgr s with MRes1 w => Some (set_mgr s MIdle) | _ => None end
  | MPopPending =>
      match mgr s with
      | MRes1 w => if memb (pending s) w
                   then Some (set_mgr (set_pending s (remove1 (pending s) w)) (MRes2 w))
                   else Some (set_mgr s MIdle)
      | _ => None end
  | MSetFuture o =>
      match mgr s, o with
      | MRes2 w, (Val | TaskExc) =>
          match fut s w with
          | Some FRunning => Some (set_mgr (set_futs s (update (futs s) w (FDone o))) (MRes3 w))
          | _ => None end
      | _, _ => None end
  | MDelRunning =>
      match mgr s with MRes3 w => Some (set_mgr (set_running s (remove1 (running s) w)) MIdle) | _ => None end
  | MFailAll o =>
      match mgr s, o with
      | MIdle, Broken => Some (set_futs s (fail_all (futs s) (pending s) o))
      | _, _ => None end
  | MClear =>
      match mgr s with MIdle => Some (set_pending s []) | _ => None end
  | MPopFail o =>
      match mgr s, o, rev (pending s) with
      | MIdle, ShutErr, w :: _ => Some (set_mgr (set_pending s (remove1 (pending s) w)) (MFail w))
      | _, _, _ => None end
  | MFailOne =>
      match mgr s with
      | MFail w =>
          match fut s w with
          | Some f => if terminal f then Some (set_mgr s MIdle)
                      else Some (set_mgr (set_futs s (update (futs s) w (FDone ShutErr))) MIdle)
          | None => None end
      | _ => None end
  | FPop =>
      match fdr s, buffer s with
      | FIdle, i :: tl => Some (set_fdr (set_buffer s tl) (FHold i))
      | _, _ => None end
  | FSend =>
      match fdr s with FHold i => Some (set_fdr (set_cpipe s (cpipe s ++ [i])) FIdle) | _ => None end
  | FErrRelease =>
      match fdr s with FHold (ICall w) => Some (set_fdr (set_slot s (S (slot s))) (FErr1 w)) | _ => None end
  | FErrPop =>
      match fdr s with
      | FErr1 w => if memb (pending s) w
                   then Some (set_fdr (set_pending s (remove1 (pending s) w)) (FErr2 w true))
                   else Some (set_fdr s (FErr2 w false))
      | _ => None end
  | FErrRemove =>
      match fdr s with
      | FErr2 w had => if memb (running s) w
                       then Some (set_fdr (set_running s (remove1 (running s) w)) (FErr3 w had))
                       else None        (* list.remove raises ValueError: the feeder thread would die *)
      | _ => None end
  | FErrSet =>
      match fdr s with
      | FErr3 w true =>
          match fut s w with
          | Some FRunning => Some (set_fdr (set_futs s (update (futs s) w (FDone SendErr))) FIdle)
          | _ => None end            (* set_exception on a resolved future raises InvalidStateError *)
      | FErr3 w false => Some (set_fdr s FIdle)
      | _ => None end
  | WSpawn p =>
      match lookup (wrk s) p with None => Some (set_wrk s (update (wrk s) p WIdle)) | Some _ => None end
  | WRecv p =>
      match wpc_of s p, cpipe s with
      | WIdle, i :: tl => Some (set_wrk (set_cpipe s tl) (update (wrk s) p (WGot i)))
      | _, _ => None end
  | WRelSlot p =>
      match wpc_of s p with
      | WGot i => Some (set_wrk (set_slot s (S (slot s))) (update (wrk s) p (WHold i)))
      | _ => None end
  | WExec p =>
      match wpc_of s p with
      | WHold (ICall w) => Some (set_wrk (set_executed s (executed s ++ [w])) (update (wrk s) p (WRan w)))
      | _ => None end
  | WSendRes p =>
      match wpc_of s p with
      | WRan w => Some (set_wrk (set_rpipe s (rpipe s ++ [RRes w])) (update (wrk s) p WIdle))
      | _ => None end
  | WSendOther p =>
      match wpc_of s p with
      | WIdle => Some (set_rpipe s (rpipe s ++ [ROther]))
      | _ => None end
  | WTakeSentinel p =>
      match wpc_of s p with
      | WHold ISent => Some (set_wrk s (update (wrk s) p WIdle))
      | _ => None end
  | WUnpickleFail p =>
      match wpc_of s p with
      | WHold (ICall _) => Some (set_wrk s (update (wrk s) p WIdle))
      | _ => None end
  | EKill p =>
      match lookup (wrk s) p with
      | Some (WDead _) | None => None
      | Some (WGot _) => Some (set_wrk s (update (wrk s) p (WDead true)))
      | Some _ => Some (set_wrk s (update (wrk s) p (WDead false)))
      end
  end.

Fixpoint run (s : state) (ls : list label) : option state :=
  match ls with [] => Some s | l :: tl => match step s l with Some s' => run s' tl | None => None end end.

Inductive reachable (cap : nat) : state -> Prop :=
| reach_init : reachable cap (init cap)
| reach_step s l s' : reachable cap s -> step s l = Some s' -> reachable cap s'.

(* ---- what trace validation observes ---- *)
Record obs := mkobs {
  o_futs : list (wid * fstate); o_pending : list wid; o_work_ids : list wid; o_running : list wid;
  o_buffer : list item; o_cpipe : list item; o_rpipe : list rmsg; o_slot : nat; o_executed : list wid }.
Definition observe (s : state) : obs :=
  mkobs (futs s) (pending s) (work_ids s) (running s) (buffer s) (cpipe s) (rpipe s) (slot s) (executed s).
