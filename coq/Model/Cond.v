(* loky.backend.synchronize.Condition over three counting semaphores and a lock (C14).
   One step = one semaphore operation of one thread/process, exactly the sequence of operations of
   wait(timeout) / notify() / notify_all() in the source; any number of threads; time-outs fire at any
   point while a waiter is blocked.  Definitions only; proofs in Proofs/CondInv.v. *)
From Coq Require Import List Arith Bool.
Import ListNotations.

Definition tid := nat.

Inductive pc :=
| Idle                                   (* not holding the lock *)
| Hold                                   (* holding the lock, between operations *)
(* wait(timeout): *)
| WReg (tmo : bool)                      (* _sleeping_count.release() done; about to release the lock *)
| WBlocked (tmo : bool)                  (* lock released; in _wait_semaphore.acquire(True, timeout) *)
| WPassed (tmo : bool) (got : bool)      (* got a token / timed out; about to _woken_count.release() *)
| WRelock (tmo : bool) (got : bool)      (* about to re-acquire the lock *)
| WDone (tmo : bool) (got : bool)        (* wait() returned [got] holding the lock *)
(* notify() / notify_all()  (all = true): *)
| NStart (all : bool)                    (* about to: assert not _wait_semaphore.acquire(False) *)
| NCancel (all : bool)                   (* loop: _woken_count.acquire(False) *)
| NCancel2 (all : bool)                  (*   ... then res = _sleeping_count.acquire(False); assert res *)
| NGrab (all : bool) (n : nat)           (* _sleeping_count.acquire(False): n sleepers grabbed so far *)
| NPost (all : bool) (n : nat)           (* grabbed one more: about to _wait_semaphore.release() *)
| NWait (all : bool) (posted k : nat)    (* k more _woken_count.acquire() to do *)
| NDrain (all : bool) (posted : nat)     (* re-zero _wait_semaphore *)
| NDone                                  (* returned, still holding the lock *)
| AssertFailed.                          (* one of the two asserts tripped *)

Record state := mk {
  lock : option tid;
  sleeping : nat; woken : nat; wsem : nat;
  thr : list (tid * pc);
  posted : nat; consumed : nat; stolen : nat      (* ghost counters of _wait_semaphore tokens *)
}.
Definition init : state := mk None 0 0 0 [] 0 0 0.

Fixpoint lookup (l : list (tid * pc)) (t : tid) : option pc :=
  match l with [] => None | (t', c) :: tl => if Nat.eqb t t' then Some c else lookup tl t end.
Fixpoint update (l : list (tid * pc)) (t : tid) (c : pc) : list (tid * pc) :=
  match l with
  | [] => [(t, c)]
  | (t', c') :: tl => if Nat.eqb t t' then (t', c) :: tl else (t', c') :: update tl t c
  end.
Definition pc_of (s : state) (t : tid) : pc := match lookup (thr s) t with Some c => c | None => Idle end.

Definition set_pc s t c := mk (lock s) (sleeping s) (woken s) (wsem s) (update (thr s) t c) (posted s) (consumed s) (stolen s).
Definition upd s lk sl wk ws t c po co st := mk lk sl wk ws (update (thr s) t c) po co st.

Inductive label :=
| Acquire (t : tid)                      (* lock.acquire() *)
| Release (t : tid)                      (* lock.release() *)
| StartWait (t : tid) (tmo : bool)       (* wait(): _sleeping_count.release() *)
| StartNotify (t : tid) (all : bool)
| Step (t : tid)                         (* the next operation of t's current call *)
| Timeout (t : tid)                      (* t's timed wait expires while it is blocked *)
| Finish (t : tid).                      (* the call returned: back to plain lock holder *)

Definition step (s : state) (l : label) : option state :=
  match l with
  | Acquire t =>
      match pc_of s t, lock s with
      | Idle, None => Some (upd s (Some t) (sleeping s) (woken s) (wsem s) t Hold (posted s) (consumed s) (stolen s))
      | _, _ => None end
  | Release t =>
      match pc_of s t with
      | Hold => Some (upd s None (sleeping s) (woken s) (wsem s) t Idle (posted s) (consumed s) (stolen s))
      | _ => None end
  | StartWait t tmo =>
      match pc_of s t with
      | Hold => Some (upd s (lock s) (S (sleeping s)) (woken s) (wsem s) t (WReg tmo) (posted s) (consumed s) (stolen s))
      | _ => None end
  | StartNotify t all =>
      match pc_of s t with Hold => Some (set_pc s t (NStart all)) | _ => None end
  | Finish t =>
      match pc_of s t with
      | WDone _ _ | NDone => Some (set_pc s t Hold)
      | _ => None end
  | Timeout t =>
      match pc_of s t with
      | WBlocked true => Some (set_pc s t (WPassed true false))
      | _ => None end
  | Step t =>
      match pc_of s t with
      | WReg tmo => Some (upd s None (sleeping s) (woken s) (wsem s) t (WBlocked tmo) (posted s) (consumed s) (stolen s))
      | WBlocked tmo =>
          match wsem s with
          | S n => Some (upd s (lock s) (sleeping s) (woken s) n t (WPassed tmo true) (posted s) (S (consumed s)) (stolen s))
          | 0 => None end
      | WPassed tmo got =>
          Some (upd s (lock s) (sleeping s) (S (woken s)) (wsem s) t (WRelock tmo got) (posted s) (consumed s) (stolen s))
      | WRelock tmo got =>
          match lock s with
          | None => Some (upd s (Some t) (sleeping s) (woken s) (wsem s) t (WDone tmo got) (posted s) (consumed s) (stolen s))
          | Some _ => None end
      | NStart all =>
          match wsem s with
          | 0 => Some (set_pc s t (NCancel all))
          | S _ => Some (set_pc s t AssertFailed) end
      | NCancel all =>
          match woken s with
          | S n => Some (upd s (lock s) (sleeping s) n (wsem s) t (NCancel2 all) (posted s) (consumed s) (stolen s))
          | 0 => Some (set_pc s t (NGrab all 0)) end
      | NCancel2 all =>
          match sleeping s with
          | S n => Some (upd s (lock s) n (woken s) (wsem s) t (NCancel all) (posted s) (consumed s) (stolen s))
          | 0 => Some (set_pc s t AssertFailed) end
      | NGrab all n =>
          match sleeping s with
          | S m => Some (upd s (lock s) m (woken s) (wsem s) t (NPost all n) (posted s) (consumed s) (stolen s))
          | 0 => if Nat.eqb n 0 then Some (set_pc s t NDone) else Some (set_pc s t (NWait all n n)) end
      | NPost all n =>
          let s' := upd s (lock s) (sleeping s) (woken s) (S (wsem s)) t
                        (if all then NGrab all (S n) else NWait all (S n) (S n)) (S (posted s)) (consumed s) (stolen s) in
          Some s'
      | NWait all p k =>
          match k with
          | 0 => Some (set_pc s t (NDrain all p))
          | S k' =>
              match woken s with
              | S n => Some (upd s (lock s) (sleeping s) n (wsem s) t
                                 (match k' with 0 => NDrain all p | _ => NWait all p k' end)
                                 (posted s) (consumed s) (stolen s))
              | 0 => None end
          end
      | NDrain all p =>
          match wsem s with
          | S n => Some (upd s (lock s) (sleeping s) (woken s) n t (if all then NDrain all p else NDone)
                             (posted s) (consumed s) (S (stolen s)))
          | 0 => Some (set_pc s t NDone) end
      | _ => None
      end
  end.

Fixpoint run (s : state) (ls : list label) : option state :=
  match ls with [] => Some s | l :: tl => match step s l with Some s' => run s' tl | None => None end end.
Inductive reachable : state -> Prop :=
| reach_init : reachable init
| reach_step s l s' : reachable s -> step s l = Some s' -> reachable s'.
