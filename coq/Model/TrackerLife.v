(* Life-cycle of resource trackers and named semaphores over a process tree (C12, C13).
   Processes hold a tracker handle (which tracker their writes go to, through an inherited pipe end);
   a tracker sweeps when the last live holder of its pipe's write end is gone.  Definitions only. *)
From Coq Require Import List Arith Bool String.
From LokyV Require Import Lib.PyLib Gen.Lifecycle Spec.TrackerSpec.
Import ListNotations.

Record proc := mkp { alive : bool; handle : nat }.
Inductive sigstate := Masked | HandlersSet | Running.           (* tracker start-up w.r.t. SIGINT/SIGTERM *)
Record tracker := mkt { t_alive : bool; t_swept : bool; t_sig : sigstate; t_pending : bool;
                        t_registry : list nat }.                (* names currently counted *)
(* a named semaphore: exists in the kernel namespace? who created it? *)
Inductive semstage := Created | Registered | Guarded | Unregistered.   (* kernel object made / REGISTER sent / finalizer installed / UNREGISTER sent *)
Record sem := mks { s_exists : bool; s_owner : nat; s_stage : semstage; s_tracker : nat }.
Record state := mk { procs : list proc; trackers : list tracker; sems : list sem }.

Definition init : state := mk [mkp true 0] [mkt true false Running false []] [].

Fixpoint upd {A} (l : list A) (i : nat) (f : A -> A) : list A :=
  match l, i with
  | [], _ => []
  | x :: tl, 0 => f x :: tl
  | x :: tl, S j => x :: upd tl j f
  end.
Definition writers (s : state) (t : nat) : nat :=
  List.length (filter (fun p => alive p && Nat.eqb (handle p) t) (procs s)).
Definition tr_alive (s : state) (t : nat) : bool :=
  match nth_error (trackers s) t with Some x => t_alive x | None => false end.

(* what makes a signal harmless is read off the code: the spawn is bracketed by SIG_BLOCK/SIG_UNBLOCK (generated
   fact) and the tracker's prologue (Spec.TrackerSpec.prologue, proved equal to the generated main()) installs
   SIG_IGN for both signals before it unblocks them *)
Definition prologue_ignores_before_unblock : bool :=
  match prologue with
  | [ECall "signal.signal" ["SIGINT"; "SIG_IGN"]; ECall "signal.signal" ["SIGTERM"; "SIG_IGN"];
     ECall "signal.pthread_sigmask" ["SIG_UNBLOCK"; "_IGNORED_SIGNALS"]]%string => true
  | _ => false end.
Definition sig_safe : bool := tracker_spawn_bracketed_by_sigmask && prologue_ignores_before_unblock.

Inductive ev :=
| Spawn (p : nat)                  (* p starts a loky child: the handle travels in the preparation data *)
| Die (p : nat)                    (* p ends, whatever the cause (exit, exception, SIGKILL): its finalizers are NOT assumed to run *)
| ExitClean (p : nat)              (* p ends through interpreter shutdown: finalizers of priority >= 0 run *)
| KillTracker (t : nat)
| Signal (t : nat)                 (* SIGINT or SIGTERM delivered to tracker t, at any time *)
| TrackerBoot (t : nat)            (* next start-up step: install SIG_IGN handlers / unblock the signals *)
| Op (p : nat)                     (* any tracked operation in p: ensure_running() first *)
| TrackerEOF (t : nat)             (* tracker t reads EOF: sweep *)
(* semaphores *)
| SemCreate (p : nat) | SemRegister (i : nat) | SemGuard (i : nat)
| SemCollect (i : nat)             (* the owning object is garbage collected: first step of the finalizer *)
| SemForget (i : nat)              (* ... its second step; which of unlink / UNREGISTER comes first is read off the source *)
| Bootstrap (p : nat).             (* a child's _bootstrap(): BaseProcess would clear the finalizer registry at this point *)


Definition step (s : state) (e : ev) : option state :=
  match e with
  | Spawn p =>
      match nth_error (procs s) p with
      | Some (mkp true h) =>
          (* the child inherits the handle -- provided it installs it before it re-imports the parent's main module (which may
             perform a tracked operation): otherwise that operation starts a private tracker.  The order is read off the source. *)
          if child_installs_tracker_handle_before_main_module
          then Some (mk (procs s ++ [mkp true h]) (trackers s) (sems s))
          else Some (mk (procs s ++ [mkp true (List.length (trackers s))]) (trackers s ++ [mkt true false Masked false []]) (sems s))
      | _ => None end
  | Die p =>
      match nth_error (procs s) p with
      | Some (mkp true h) => Some (mk (upd (procs s) p (fun _ => mkp false h)) (trackers s) (sems s))
      | _ => None end
  | ExitClean p =>
      match nth_error (procs s) p with
      | Some (mkp true h) =>
          (* finalizers: every guarded semaphore owned by p is unlinked and unregistered *)
          let sems' := map (fun x => if Nat.eqb (s_owner x) p && match s_stage x with Guarded => true | _ => false end
                                     then mks false (s_owner x) (s_stage x) (s_tracker x) else x) (sems s) in
          Some (mk (upd (procs s) p (fun _ => mkp false h)) (trackers s) sems')
      | _ => None end
  | KillTracker t =>
      if tr_alive s t then Some (mk (procs s) (upd (trackers s) t (fun x => mkt false (t_swept x) (t_sig x) (t_pending x) (t_registry x))) (sems s))
      else None
  | Signal t =>
      match nth_error (trackers s) t with
      | Some x =>
          if t_alive x then
            if sig_safe then
              match t_sig x with
              | Masked => Some (mk (procs s) (upd (trackers s) t (fun x => mkt true (t_swept x) Masked true (t_registry x))) (sems s))
              | _ => Some s                    (* SIG_IGN installed: ignored *)
              end
            else Some (mk (procs s) (upd (trackers s) t (fun x => mkt false (t_swept x) (t_sig x) (t_pending x) (t_registry x))) (sems s))
          else None
      | None => None end
  | TrackerBoot t =>
      match nth_error (trackers s) t with
      | Some x =>
          if t_alive x then
            match t_sig x with
            | Masked => Some (mk (procs s) (upd (trackers s) t (fun x => mkt true (t_swept x) HandlersSet (t_pending x) (t_registry x))) (sems s))
            | HandlersSet => (* unblock: a pending signal is now delivered to SIG_IGN *)
                Some (mk (procs s) (upd (trackers s) t (fun x => mkt true (t_swept x) Running false (t_registry x))) (sems s))
            | Running => None end
          else None
      | None => None end
  | Op p =>
      match nth_error (procs s) p with
      | Some (mkp true h) =>
          if tr_alive s h then Some s
          else let t := List.length (trackers s) in
               Some (mk (upd (procs s) p (fun _ => mkp true t)) (trackers s ++ [mkt true false Masked false []]) (sems s))
      | _ => None end
  | TrackerEOF t =>
      match nth_error (trackers s) t with
      | Some x =>
          if t_alive x && Nat.eqb (writers s t) 0 then
            Some (mk (procs s) (upd (trackers s) t (fun x => mkt false true (t_sig x) (t_pending x) []))
                     (* everything still registered with t is unlinked *)
                     (map (fun y => if Nat.eqb (s_tracker y) t && match s_stage y with Created | Unregistered => false | _ => true end
                                    then mks false (s_owner y) (s_stage y) (s_tracker y) else y) (sems s)))
          else None
      | None => None end
  | SemCreate p =>
      match nth_error (procs s) p with
      | Some (mkp true h) => Some (mk (procs s) (trackers s) (sems s ++ [mks true p Created h]))
      | _ => None end
  | SemRegister i =>
      match nth_error (sems s) i with
      | Some (mks ex o Created t) =>
          match nth_error (procs s) o with
          | Some (mkp true h) => Some (mk (procs s) (trackers s) (upd (sems s) i (fun _ => mks ex o Registered h)))
          | _ => None end
      | _ => None end
  | SemGuard i =>
      match nth_error (sems s) i with
      | Some (mks ex o Registered t) =>
          match nth_error (procs s) o with
          | Some (mkp true _) => Some (mk (procs s) (trackers s) (upd (sems s) i (fun _ => mks ex o Guarded t)))
          | _ => None end
      | _ => None end
  | SemCollect i =>
      match nth_error (sems s) i with
      | Some (mks true o Guarded t) =>
          match nth_error (procs s) o with
          | Some (mkp true _) =>
              Some (mk (procs s) (trackers s)
                       (upd (sems s) i (fun _ => if semlock_cleanup_unlinks_then_unregisters then mks false o Guarded t
                                                 else mks true o Unregistered t)))
          | _ => None end
      | _ => None end
  | SemForget i =>
      match nth_error (sems s) i with
      | Some (mks false o Guarded t) =>
          match nth_error (procs s) o with
          | Some (mkp true _) => if semlock_cleanup_unlinks_then_unregisters
                                 then Some (mk (procs s) (trackers s) (upd (sems s) i (fun _ => mks false o Unregistered t))) else None
          | _ => None end
      | Some (mks true o Unregistered t) =>
          match nth_error (procs s) o with
          | Some (mkp true _) => if semlock_cleanup_unlinks_then_unregisters then None
                                 else Some (mk (procs s) (trackers s) (upd (sems s) i (fun _ => mks false o Unregistered t)))
          | _ => None end
      | _ => None end
  | Bootstrap p =>
      match nth_error (procs s) p with
      | Some (mkp true _) =>
          (* semaphores created while the child started up (main module re-imported, process object unpickled) keep their
             finalizer only if LokyProcess does not clear the registry -- read off loky/backend/process.py *)
          if child_keeps_finalizers_registered_during_startup then Some s
          else Some (mk (procs s) (trackers s)
                        (map (fun y => if Nat.eqb (s_owner y) p && match s_stage y with Guarded => true | _ => false end
                                       then mks (s_exists y) (s_owner y) Registered (s_tracker y) else y) (sems s)))
      | _ => None end
  end.

Fixpoint run (s : state) (es : list ev) : option state :=
  match es with [] => Some s | e :: tl => match step s e with Some s' => run s' tl | None => None end end.
Inductive reachable : state -> Prop :=
| reach_init : reachable init
| reach_step s e s' : reachable s -> step s e = Some s' -> reachable s'.
