(* C01 / C02 / C06: the two loops in which the manager thread fails every work item left in its table --
   terminate_broken() (a worker died: `for work_item in pending_work_items.values(): set_exception(bpe)`) and the kill_workers
   branch of flag_executor_shutting_down() (`while pending_work_items: popitem(); set_exception(ShutdownExecutorError)`).
   A future that still waits in the table can be cancelled by its owner at any moment, also between two iterations of the loop,
   and Future.set_exception() raises InvalidStateError on a cancelled future.  How each loop guards the call is read off the
   source (Gen/Ledger.v: broken_path_fail_guard, forced_path_fail_guard):
     NoGuard            set_exception(...) bare                       -- the pinned source: finding H14 (the manager thread dies)
     CheckFirst         if not future.cancelled(): set_exception(...) -- check-then-act: a cancel can land in between
     CatchInvalidState  try: set_exception(...) except InvalidStateError: pass
   Definitions only; proofs in Proofs/FailLoopThm.v. *)
From Coq Require Import List Arith Bool.
From LokyV Require Import Lib.LedgerLib.
Import ListNotations.

Inductive fst := Waiting | Running | Cancelled | Failed.
Inductive lph :=
| Next                  (* between two iterations *)
| Checked               (* CheckFirst only: the test said "not cancelled", set_exception not yet called *)
| Crashed               (* InvalidStateError escaped: the manager thread is dead, the rest of the table is never failed *)
| Finished.
Record fl := mkfl { handled : list fst; todo : list fst; lphase : lph }.
Definition start (table : list fst) : fl := mkfl [] table Next.

Inductive ev :=
| Cancel (i : nat)      (* a user thread calls cancel() on the i-th item not handled yet: succeeds iff it is still Waiting *)
| Mgr.                  (* the manager makes one step of its loop *)

Fixpoint cancel_nth (l : list fst) (i : nat) : list fst :=
  match l, i with
  | [], _ => []
  | Waiting :: r, 0 => Cancelled :: r
  | f :: r, 0 => f :: r
  | f :: r, S j => f :: cancel_nth r j
  end.

Definition settable (f : fst) : bool := match f with Waiting | Running => true | _ => false end.

Definition step (g : fail_guard) (s : fl) (e : ev) : fl :=
  match e with
  | Cancel i => mkfl (handled s) (cancel_nth (todo s) i) (lphase s)
  | Mgr =>
      match lphase s, todo s with
      | Next, [] => mkfl (handled s) [] Finished
      | Next, f :: r =>
          match g with
          | NoGuard => if settable f then mkfl (handled s ++ [Failed]) r Next else mkfl (handled s) (f :: r) Crashed
          | CatchInvalidState => mkfl (handled s ++ [if settable f then Failed else f]) r Next
          | CheckFirst => match f with
                          | Cancelled => mkfl (handled s ++ [f]) r Next
                          | _ => mkfl (handled s) (f :: r) Checked
                          end
          end
      | Checked, f :: r => if settable f then mkfl (handled s ++ [Failed]) r Next else mkfl (handled s) (f :: r) Crashed
      | _, _ => s
      end
  end.
Definition run (g : fail_guard) (es : list ev) (s : fl) : fl := fold_left (step g) es s.

Definition terminal (f : fst) : bool := match f with Cancelled | Failed => true | _ => false end.
Definition mgr_steps (es : list ev) : nat := length (filter (fun e => match e with Mgr => true | _ => false end) es).
(* a table as the manager can find it: nothing in it has an outcome yet *)
Definition fresh (table : list fst) : bool := forallb (fun f => match f with Failed => false | _ => true end) table.
