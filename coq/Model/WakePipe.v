(* C01: the wake-up pipe of the manager thread as a bounded buffer (finding H18, fixed).
   _ThreadWakeup.wakeup() is always called with the executor's shutdown lock held (submit, shutdown, the collection callback, the
   interpreter's exit hook, _resize, the feeder's error hook); it writes one message into a pipe that holds `cap` of them (16384 of
   4 bytes in 64 KiB) and BLOCKS when the pipe is full.  The manager thread drains the pipe without any lock (clear(), a top-level
   statement of wait_prog: Gen/Detect.v) -- but between two drains it takes the shutdown lock itself whenever it finds the executor
   shutting down or broken (flag_as_shutting_down / flag_as_broken).  Whether wakeup() writes only when no message is pending is read
   off the source (Gen/Detect.v: wakeup_writes_only_when_nothing_is_pending); on the pinned source it always wrote.
   Definitions only; proofs in Proofs/WakePipeThm.v. *)
From Coq Require Import List Arith Bool.
Import ListNotations.

Inductive holder := Free | ByWriter | ByManager.
Inductive wph := WOut | WIn | WBlocked.        (* outside; inside wakeup() with the lock; blocked in send_bytes with the lock *)
Inductive mph := MRun | MWantsLock.            (* running towards its next drain; waiting for the shutdown lock *)
Record wp := mkwp { msgs : nat; lock : holder; wr : wph; mg : mph }.
Definition wp0 : wp := mkwp 0 Free WOut MRun.

Inductive ev :=
| WEnter            (* a user thread takes the shutdown lock and calls wakeup() *)
| WStep             (* it writes (or finds a message pending and skips), then releases the lock -- or blocks on a full pipe *)
| MDrain            (* the manager reaches clear(): every message is read *)
| MLock.            (* the manager, on its way, needs the shutdown lock: takes and releases it, or waits for it *)

Definition step (skip : bool) (cap : nat) (s : wp) (e : ev) : wp :=
  match e with
  | WEnter => match lock s, wr s with Free, WOut => mkwp (msgs s) ByWriter WIn (mg s) | _, _ => s end
  | WStep =>
      match wr s with
      | WIn | WBlocked =>
          if skip && negb (Nat.eqb (msgs s) 0) then mkwp (msgs s) Free WOut (mg s)              (* a message is pending: nothing to write *)
          else if Nat.ltb (msgs s) cap then mkwp (S (msgs s)) Free WOut (mg s)
          else mkwp (msgs s) ByWriter WBlocked (mg s)                                           (* the pipe is full: send_bytes blocks *)
      | WOut => s
      end
  | MDrain => match mg s with MRun => mkwp 0 (lock s) (wr s) MRun | MWantsLock => s end          (* it cannot drain while it waits for the lock *)
  | MLock => match lock s with
             | Free => mkwp (msgs s) Free (wr s) MRun                                           (* taken and released *)
             | _ => mkwp (msgs s) (lock s) (wr s) MWantsLock
             end
  end.
Definition run (skip : bool) (cap : nat) (es : list ev) (s : wp) : wp := fold_left (step skip cap) es s.

(* the writer is blocked on the full pipe with the lock, the manager waits for the lock: nothing can ever change *)
Definition deadlocked (s : wp) : bool :=
  match wr s, mg s with WBlocked, MWantsLock => true | _, _ => false end.
