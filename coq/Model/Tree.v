(* Process-tree model for nested executors (C19).  The two decisions -- may this process create an executor? what depth does a
   spawned worker get? -- are the GENERATED functions (Gen/Depth.v).  A process has a real nesting depth (one more than the process
   that created its executor) and the value of its _CURRENT_DEPTH variable, which is what the generated functions read.  A worker
   goes through three phases: Loading (its arguments are being unpickled and, for loky_init_main, its main module imported: user
   code can run, the variable still has the module default 0, and starting a process is refused by spawn._check_not_importing_main),
   Init (inside _process_worker, the initializer runs) and Running.  When the variable is installed -- on entering
   _process_worker or only after the initializer -- is a generated fact.  Definitions only; proofs in Proofs/TreeProps.v. *)
From Coq Require Import List String Ascii ZArith Bool.
From LokyV Require Import Lib.PyLib Gen.Depth.
Import ListNotations.
Open Scope string_scope.
Open Scope Z_scope.

Inductive phase := Loading | Init | Running.
Record proc := { p_real : Z; p_var : Z; p_ship : Z; p_phase : phase; p_parent : option nat }.   (* parent = creator of its executor *)
Record exec := { x_owner : nat; x_method : string; x_loading : bool }.     (* x_loading: constructed while its owner was Loading *)
Record tree := { procs : list proc; execs : list exec }.

Definition root : proc := {| p_real := 0; p_var := 0; p_ship := 0; p_phase := Running; p_parent := None |}.
Definition init_tree : tree := {| procs := [root]; execs := [] |}.

Inductive op :=
| Create (p : nat) (method : string)     (* process p constructs a ProcessPoolExecutor *)
| Spawn (x : nat)                        (* executor x starts a worker: initial fill, respawn after a time-out or memory-leak exit,
                                            resize, reuse -- all the same *)
| Begin (i : nat)                        (* worker i has loaded its arguments and enters _process_worker *)
| Install (i : nat).                     (* worker i is past its initializer *)
Inductive outcome := Done | RecursionError | NoSuch | Bootstrapping.

Definition is_loading (ph : phase) : bool := match ph with Loading => true | _ => false end.
Fixpoint set_nth {A} (l : list A) (i : nat) (a : A) : list A :=
  match l, i with
  | [], _ => []
  | _ :: r, O => a :: r
  | x :: r, S j => x :: set_nth r j a
  end.

Definition step_with (early guard : bool) (MAX : Z) (t : tree) (o : op) : tree * outcome :=
  match o with
  | Create p m =>
      match nth_error (procs t) p with
      | None => (t, NoSuch)
      | Some pr =>
          match fst (check_max_depth m MAX (p_var pr) []) with
          | Raise _ => (t, RecursionError)          (* raised before anything is created *)
          | _ => ({| procs := procs t;
                     execs := execs t ++ [{| x_owner := p; x_method := m; x_loading := is_loading (p_phase pr) |}] |}, Done)
          end
      end
  | Spawn x =>
      match nth_error (execs t) x with
      | None => (t, NoSuch)
      | Some ex =>
          match nth_error (procs t) (x_owner ex) with
          | None => (t, NoSuch)
          | Some pr =>
              if guard && is_loading (p_phase pr) then (t, Bootstrapping) else
              match fst (child_depth (p_var pr) []) with
              | Ret d => ({| procs := procs t ++ [{| p_real := p_real pr + 1; p_var := 0; p_ship := d; p_phase := Loading;
                                                     p_parent := Some (x_owner ex) |}];
                             execs := execs t |}, Done)
              | _ => (t, NoSuch)
              end
          end
      end
  | Begin i =>
      match nth_error (procs t) i with
      | Some pr => match p_phase pr with
                   | Loading => ({| procs := set_nth (procs t) i {| p_real := p_real pr; p_var := if early then p_ship pr else p_var pr;
                                                                    p_ship := p_ship pr; p_phase := Init; p_parent := p_parent pr |};
                                    execs := execs t |}, Done)
                   | _ => (t, NoSuch) end
      | None => (t, NoSuch)
      end
  | Install i =>
      match nth_error (procs t) i with
      | Some pr => match p_phase pr with
                   | Init => ({| procs := set_nth (procs t) i {| p_real := p_real pr; p_var := p_ship pr; p_ship := p_ship pr;
                                                                 p_phase := Running; p_parent := p_parent pr |};
                                 execs := execs t |}, Done)
                   | _ => (t, NoSuch) end
      | None => (t, NoSuch)
      end
  end.

Definition step := step_with worker_installs_depth_before_user_code bootstrapping_process_cannot_spawn.
Definition run (MAX : Z) (ops : list op) : tree := fold_left (fun t o => fst (step MAX t o)) ops init_tree.
