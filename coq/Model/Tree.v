(* Process-tree model for nested executors (C19).  The two decisions -- may this process create
   an executor? what depth does a spawned worker get? -- are the GENERATED functions. *)
From Coq Require Import List String Ascii ZArith Bool.
From LokyV Require Import Lib.PyLib Gen.Depth.
Import ListNotations.
Open Scope string_scope.
Open Scope Z_scope.

Record proc := { p_depth : Z; p_parent : option nat }.           (* parent = creator of its executor *)
Record exec := { x_owner : nat; x_method : string }.
Record tree := { procs : list proc; execs : list exec }.

Definition init_tree : tree := {| procs := [{| p_depth := 0; p_parent := None |}]; execs := [] |}.

Inductive op :=
| Create (p : nat) (method : string)     (* process p constructs a ProcessPoolExecutor *)
| Spawn (x : nat).                       (* executor x starts a worker: initial fill, respawn after a
                                            time-out or memory-leak exit, resize, reuse -- all the same *)
Inductive outcome := Done | RecursionError | NoSuch.

Definition step (MAX : Z) (t : tree) (o : op) : tree * outcome :=
  match o with
  | Create p m =>
      match nth_error (procs t) p with
      | None => (t, NoSuch)
      | Some pr =>
          match fst (check_max_depth m MAX (p_depth pr) []) with
          | Raise _ => (t, RecursionError)          (* raised before anything is created *)
          | _ => ({| procs := procs t; execs := execs t ++ [{| x_owner := p; x_method := m |}] |}, Done)
          end
      end
  | Spawn x =>
      match nth_error (execs t) x with
      | None => (t, NoSuch)
      | Some ex =>
          match nth_error (procs t) (x_owner ex) with
          | None => (t, NoSuch)
          | Some pr =>
              match fst (child_depth (p_depth pr) []) with
              | Ret d => ({| procs := procs t ++ [{| p_depth := d; p_parent := Some (x_owner ex) |}];
                             execs := execs t |}, Done)
              | _ => (t, NoSuch)
              end
          end
      end
  end.

Definition run (MAX : Z) (ops : list op) : tree := fold_left (fun t o => fst (step MAX t o)) ops init_tree.
