(* C02: the manager thread notices the death of a worker because the worker's sentinel is in the list it waits on; it takes that
   list (a snapshot of the registered workers) each time it goes to sleep in wait_result_broken_or_wakeup().  Workers registered by
   another thread after the snapshot -- submit() re-starting workers after idle time-outs, _resize() topping the pool up -- are
   watched only from the manager's next wake-up on.  Whether those threads wake the manager AFTER they have registered the new
   workers is read off the source: the order of SEnsureRunning and SWakeup in Gen/Pool.v: submit_prog, and of the top-up and
   ZWakeManager in Gen/Resize.v: resize_prog.  On the pinned source submit() wrote the wake-up byte first and _resize() wrote none:
   finding H13 (a worker re-started by submit() that dies at once is never noticed: 20 of 20 real runs), fixed.
   Counters: workers registered but absent from the manager's current list.  Definitions only; proofs in Proofs/WatchThm.v. *)
From Coq Require Import List Arith Bool.
From LokyV Require Import Lib.PoolLib Gen.Pool Lib.ResizeLib Gen.Resize.
Import ListNotations.

Inductive uop := USpawn | UWake.                 (* what a user thread does, in order *)
Definition submit_watch_ops : list uop :=
  flat_map (fun o => match o with SEnsureRunning => [USpawn] | SWakeup => [UWake] | _ => [] end) submit_prog.
Fixpoint rz_watch_inner (l : list rz) : list uop :=
  match l with
  | [] => []
  | (ZAdjust | ZAdjustIfLive) :: r => USpawn :: rz_watch_inner r
  | _ :: r => rz_watch_inner r
  end.
Fixpoint rz_watch (l : list rz) : list uop :=
  match l with
  | [] => []
  | ZLocked b :: r => rz_watch_inner b ++ rz_watch r
  | ZWakeManager :: r => UWake :: rz_watch r
  | _ :: r => rz_watch r
  end.
Definition resize_watch_ops : list uop := rz_watch resize_prog.

Inductive wph := Looping | Waiting.
Record wt := mkwt {
  unw : nat;              (* registered workers that are not in the manager's current wait list *)
  wbytes : nat;           (* wake-up bytes / messages the manager has not consumed yet *)
  wphase : wph;
  inflight : list uop     (* the submit() or _resize() in progress (they exclude each other): what it still has to do *)
}.
Definition wt0 : wt := mkwt 0 0 Looping [].

Inductive ev :=
| SubmitBegin | ResizeBegin | UserStep (spawned : nat)      (* spawned: how many workers the top-up starts (0 when the pool is full) *)
| MgrSnapshot               (* the manager builds its wait list and goes to sleep *)
| MgrWake                   (* it is woken by a byte or a message and will loop *)
| MgrRespawn (k : nat)      (* in its loop the manager re-starts k workers itself *)
| ExitWatched | ExitUnwatched.   (* a worker leaves cleanly: it announces it, which wakes the manager *)

Definition step_with (sub_ops rz_ops : list uop) (s : wt) (e : ev) : wt :=
  match e with
  | SubmitBegin => match inflight s with [] => mkwt (unw s) (wbytes s) (wphase s) sub_ops | _ => s end
  | ResizeBegin => match inflight s with [] => mkwt (unw s) (wbytes s) (wphase s) rz_ops | _ => s end
  | UserStep k => match inflight s with
                  | USpawn :: r => mkwt (unw s + k) (wbytes s) (wphase s) r
                  | UWake :: r => mkwt (unw s) (S (wbytes s)) (wphase s) r
                  | [] => s end
  | MgrSnapshot => match wphase s with Looping => mkwt 0 (wbytes s) Waiting (inflight s) | Waiting => s end
  | MgrWake => match wphase s, wbytes s with Waiting, S _ => mkwt (unw s) 0 Looping (inflight s) | _, _ => s end
  | MgrRespawn k => match wphase s with Looping => mkwt (unw s + k) (wbytes s) Looping (inflight s) | Waiting => s end
  | ExitWatched => mkwt (unw s) (S (wbytes s)) (wphase s) (inflight s)
  | ExitUnwatched => match unw s with S n => mkwt n (S (wbytes s)) (wphase s) (inflight s) | 0 => s end
  end.
Definition step := step_with submit_watch_ops resize_watch_ops.
Definition run (es : list ev) (s : wt) : wt := fold_left step es s.

(* the manager sleeps, nothing will wake it by itself, no user call is in progress *)
Definition quiet (s : wt) : bool :=
  match wphase s, inflight s with Waiting, [] => Nat.eqb (wbytes s) 0 | _, _ => false end.
