(* C10: the posting of the sentinels in _resize(), with the capacity of the call queue -- which Model/Resize.v does not carry.
   _resize() holds the processes management lock while it posts one sentinel per worker to stop with a BLOCKING put (generated:
   ZPostSentinels inside ZLocked, Gen/Resize.v); it counts as alive every registered worker whose process is alive, including the
   ones that have already announced their idle-time-out exit and wait for the manager's hand-shake: those never read the queue
   again.  While the lock is held no worker can start leaving (its probe of the lock fails: generated fact) and the manager cannot
   reap the leavers (it needs the lock).  The queue holds nothing but sentinels at that point (_wait_job_completion, generated
   fact); its capacity is fixed when the executor is created (2 * cpu_count() + 1, generated fact).
   Definitions only; proofs in Proofs/SentinelPostThm.v. *)
From Coq Require Import List Arith Bool.
Import ListNotations.

Record sp := mksp {
  slots : nat;        (* free slots of the call queue *)
  inq : nat;          (* sentinels in the queue *)
  readers : nat;      (* registered workers that still read the queue *)
  leavers : nat;      (* registered, alive, announced their idle exit: never read again, not reaped yet *)
  to_post : nat;      (* sentinels the resizing thread still has to post; it holds the management lock while this is positive *)
  gone : nat          (* workers that took a sentinel *)
}.
(* the resizing thread looks: everybody alive counts *)
Definition begin (cap rd lv target : nat) : sp := mksp cap 0 rd lv ((rd + lv) - target) 0.

Inductive ev := Post | Take | Reap | IdleExit.
Definition locked (s : sp) : bool := negb (Nat.eqb (to_post s) 0).

Definition step (s : sp) (e : ev) : sp :=
  match e with
  | Post => match to_post s, slots s with
            | S t, S f => mksp f (S (inq s)) (readers s) (leavers s) t (gone s)
            | _, _ => s end                                   (* nothing to post, or the put blocks *)
  | Take => match inq s, readers s with
            | S q, S r => mksp (S (slots s)) q r (leavers s) (to_post s) (S (gone s))
            | _, _ => s end
  | Reap => if locked s then s                                  (* the manager needs the management lock *)
            else match leavers s with S l => mksp (slots s) (inq s) (readers s) l (to_post s) (gone s) | 0 => s end
  | IdleExit => if locked s then s                              (* the worker's probe of the lock fails: it goes back to the queue *)
                else match readers s with S r => mksp (slots s) (inq s) r (S (leavers s)) (to_post s) (gone s) | 0 => s end
  end.
Definition run (es : list ev) (s : sp) : sp := fold_left step es s.
(* the resizing thread is blocked in its put and nothing else can ever happen *)
Definition wedged (s : sp) : Prop := to_post s > 0 /\ forall e, step s e = s.
