(* Trace validation for Model/TokenFlow.v: every observable change made by an actor of the real
   code must be explained by a short sequence of that actor's model steps.  The candidate set of
   model states (hidden program counters are not observed) is tracked exactly. *)
From Coq Require Import List Arith Bool.
From LokyV Require Import Model.TokenFlow.
Import ListNotations.

Inductive actor := AUser (u : uid) | AMgr | AFdr | AWrk (p : pid).

Definition fout_eqb (a b : fout) : bool :=
  match a, b with
  | Val, Val | TaskExc, TaskExc | SendErr, SendErr | Broken, Broken | ShutErr, ShutErr => true
  | _, _ => false end.
Definition fstate_eqb (a b : fstate) : bool :=
  match a, b with
  | FPending, FPending | FRunning, FRunning | FCancelled, FCancelled => true
  | FDone x, FDone y => fout_eqb x y
  | _, _ => false end.
Definition item_eqb (a b : item) : bool :=
  match a, b with ICall x, ICall y => Nat.eqb x y | ISent, ISent => true | _, _ => false end.
Definition rmsg_eqb (a b : rmsg) : bool :=
  match a, b with RRes x, RRes y => Nat.eqb x y | ROther, ROther => true | _, _ => false end.
Fixpoint leqb {A} (eqb : A -> A -> bool) (a b : list A) : bool :=
  match a, b with
  | [], [] => true
  | x :: a', y :: b' => eqb x y && leqb eqb a' b'
  | _, _ => false end.
Definition pair_eqb {A} (eqb : A -> A -> bool) (a b : nat * A) : bool :=
  Nat.eqb (fst a) (fst b) && eqb (snd a) (snd b).
(* futures are compared as finite maps given in increasing key order by both sides *)
Definition obs_eqb (a b : obs) : bool :=
  leqb (pair_eqb fstate_eqb) (o_futs a) (o_futs b) && leqb Nat.eqb (o_pending a) (o_pending b)
  && leqb Nat.eqb (o_work_ids a) (o_work_ids b) && leqb Nat.eqb (o_running a) (o_running b)
  && leqb item_eqb (o_buffer a) (o_buffer b) && leqb item_eqb (o_cpipe a) (o_cpipe b)
  && leqb rmsg_eqb (o_rpipe a) (o_rpipe b) && Nat.eqb (o_slot a) (o_slot b)
  && leqb Nat.eqb (o_executed a) (o_executed b).

Definition mpc_eqb (a b : mpc) : bool :=
  match a, b with
  | MIdle, MIdle => true
  | MGot x, MGot y | MSkip x, MSkip y | MRun x, MRun y | MRes1 x, MRes1 y | MRes2 x, MRes2 y
  | MRes3 x, MRes3 y => Nat.eqb x y
  | MPut x, MPut y | MBuf x, MBuf y => item_eqb x y
  | MFail x, MFail y => Nat.eqb x y
  | _, _ => false end.
Definition fpc_eqb (a b : fpc) : bool :=
  match a, b with
  | FIdle, FIdle => true
  | FHold x, FHold y => item_eqb x y
  | FErr1 x, FErr1 y => Nat.eqb x y
  | FErr2 x h, FErr2 y h' | FErr3 x h, FErr3 y h' => Nat.eqb x y && Bool.eqb h h'
  | _, _ => false end.
Definition wpc_eqb (a b : wpc) : bool :=
  match a, b with
  | WIdle, WIdle => true
  | WDead a, WDead b => Bool.eqb a b
  | WGot x, WGot y | WHold x, WHold y => item_eqb x y
  | WRan x, WRan y => Nat.eqb x y
  | _, _ => false end.
Definition upc_eqb (a b : upc) : bool :=
  match a, b with
  | UIdle, UIdle => true
  | UHalf x, UHalf y => Nat.eqb x y
  | UPut x, UPut y | UBuf x, UBuf y => item_eqb x y
  | _, _ => false end.
Definition state_eqb (a b : state) : bool :=
  obs_eqb (observe a) (observe b) && Nat.eqb (next a) (next b) && mpc_eqb (mgr a) (mgr b)
  && fpc_eqb (fdr a) (fdr b) && leqb (pair_eqb wpc_eqb) (wrk a) (wrk b)
  && leqb (pair_eqb upc_eqb) (usr a) (usr b).

Definition actor_labels (s : state) (a : actor) : list label :=
  match a with
  | AUser u => [USubmitA u; USubmitB u; UPutStart u; UAcqSlot u; UBufAppend u]
               ++ map UCancel (map fst (futs s))
  | AMgr => [MTake; MSetRunning; MDelPending; MAddRunning; MAcqSlot; MBufAppend; MPutSentinel; MRecv; MDropRes;
             MPopPending; MSetFuture Val; MSetFuture TaskExc; MDelRunning; MFailAll Broken; MClear;
             MPopFail ShutErr; MFailOne]
  | AFdr => [FPop; FSend; FErrRelease; FErrPop; FErrRemove; FErrSet]
  | AWrk p => [WSpawn p; WRecv p; WRelSlot p; WExec p; WSendRes p; WSendOther p; WTakeSentinel p; WUnpickleFail p]
  end.

Definition succs (s : state) (a : actor) : list state :=
  flat_map (fun l => match step s l with Some s' => [s'] | None => [] end) (actor_labels s a).

Fixpoint add_new (s : state) (l : list state) : list state :=
  match l with
  | [] => [s]
  | x :: tl => if state_eqb x s then l else x :: add_new s tl
  end.
Definition union (a b : list state) : list state := fold_left (fun acc s => add_new s acc) b a.

(* states reachable from s by 1..fuel steps of actor a whose observation is o *)
Fixpoint explain (fuel : nat) (s : state) (a : actor) (o : obs) : list state :=
  match fuel with
  | 0 => []
  | S f =>
      fold_left (fun acc s' =>
                   let here := if obs_eqb (observe s') o then [s'] else [] in
                   union (union acc here) (explain f s' a o))
                (succs s a) []
  end.

Definition FUEL := 5.

(* one trace event: actor a ran; the observation afterwards is o *)
Definition validate_event (cands : list state) (ev : actor * obs) : list state :=
  fold_left (fun acc s => union acc (explain FUEL s (fst ev) (snd ev))) cands [].

(* returns (index of the first unexplained event, or None) and the final candidate set *)
Fixpoint validate (cands : list state) (tr : list (actor * obs)) (i : nat) : option nat * list state :=
  match tr with
  | [] => (None, cands)
  | ev :: tl =>
      match validate_event cands ev with
      | [] => (Some i, cands)
      | c' => validate c' tl (S i)
      end
  end.
