(* Characterisation of Gen/Depth.v (translated from loky/process_executor.py). *)
From Coq Require Import List String Ascii ZArith Bool Lia.
From LokyV Require Import Lib.PyLib Lib.StmTac Gen.Depth.
Import ListNotations.
Open Scope string_scope.
Open Scope Z_scope.

Definition check_fails (method : string) (MAX d : Z) : bool :=
  (String.eqb method "fork" && (d >? 0)) || ((0 <? MAX) && (d + 1 >? MAX)).

Lemma check_max_depth_char method MAX d eff0 :
  check_max_depth method MAX d eff0 =
  (if check_fails method MAX d then Raise LokyRecursionError else Norm, eff0).
Proof.
  unfold check_max_depth, check_max_depth_run, check_max_depth_body, check_fails.
  check_max_depth_red.
  destruct (String.eqb method "fork"), (d >? 0), (0 <? MAX), (d + 1 >? MAX); reflexivity.
Qed.

Lemma child_depth_char d eff0 : child_depth d eff0 = (Ret (d + 1), eff0).
Proof. reflexivity. Qed.

Lemma max_depth_char env eff0 :
  max_depth env eff0 =
  (match dget env "LOKY_MAX_DEPTH" with
   | Some s => match py_int_of_str s with Ok z => Ret z | Err e => Raise e end
   | None => Ret 10
   end, eff0).
Proof.
  unfold max_depth, max_depth_run, max_depth_body. max_depth_red.
  destruct (dget env "LOKY_MAX_DEPTH"); cbn; [destruct (py_int_of_str s)|]; reflexivity.
Qed.

(* structural facts extracted from the source (see tr/units.py gen_depth) *)
Lemma worker_installs_depth_ok : worker_installs_depth = true. Proof. reflexivity. Qed.
Lemma init_checks_depth_first_ok : init_checks_depth_first = true. Proof. reflexivity. Qed.
Lemma early_ok : worker_installs_depth_before_user_code = true. Proof. reflexivity. Qed.
Lemma guard_ok : bootstrapping_process_cannot_spawn = true. Proof. reflexivity. Qed.
