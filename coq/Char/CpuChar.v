(* Characterisation: Gen/Cpu.v (translated from loky/backend/context.py) = Spec/CpuSpec.v. *)
From Coq Require Import List String Ascii ZArith Bool Lia.
From LokyV Require Import Lib.PyLib Lib.StmTac Lib.CpuCfg Gen.Cpu Spec.CpuSpec.
Import ListNotations.
Open Scope string_scope.

Section C.
Variable cfg : cpu_cfg.

Ltac redx := cbv beta iota zeta delta [fst snd rbind ctl_of call_ret oracle_raise try_except_as
                                        V2 V1Q V1P NF env_absent os_count dyn_ltb dyn_leb dyn_num dyn_int dyn_eqb dyn_is_none dyn_truth andb negb orb existsb].

Lemma cgroup_char os eff0 :
  cpu_count_cgroup cfg os eff0 = (ctl_of (cgroup_spec cfg os), eff0).
Proof.
  unfold cpu_count_cgroup, cpu_count_cgroup_run, cpu_count_cgroup_body, cgroup_spec, cgroup_strings.
  cpu_count_cgroup_red; redx.
  repeat (dstep; cpu_count_cgroup_red; redx; try congruence; try reflexivity).
Qed.

Lemma affinity_char os eff0 :
  cpu_count_affinity cfg os eff0 =
  (ctl_of (fst (affinity_spec cfg os)),
   (eff0 ++ if snd (affinity_spec cfg os) then [W_AFF] else [])%list).
Proof.
  unfold cpu_count_affinity, cpu_count_affinity_run, cpu_count_affinity_body, affinity_spec.
  cpu_count_affinity_red; redx.
  repeat (dstep; cpu_count_affinity_red; redx; rewrite ?app_nil_r; try congruence; try reflexivity).
  all: exfalso; match goal with H : ("linux" =? "linux") = false |- _ => vm_compute in H; discriminate H end.
Qed.

Lemma env_char os :
  dyn_int (match dget (c_env cfg) "LOKY_MAX_CPU_COUNT" with Some s => DStr s | None => DInt os end)
  = env_spec cfg os.
Proof. reflexivity. Qed.

Lemma user_char os eff0 :
  cpu_count_user cfg os eff0 =
  (ctl_of (fst (user_spec cfg os)),
   (eff0 ++ if snd (user_spec cfg os) then [W_AFF] else [])%list).
Proof.
  unfold cpu_count_user, cpu_count_user_run, cpu_count_user_body, user_spec.
  cpu_count_user_red; redx.
  rewrite affinity_char. redx.
  destruct (affinity_spec cfg os) as [[av|e] w]; cpu_count_user_red; redx; [|reflexivity].
  rewrite cgroup_char. redx.
  destruct (cgroup_spec cfg os) as [cv|e]; cpu_count_user_red; redx; [|reflexivity].
  unfold env_spec. redx.
  repeat (dstep; cpu_count_user_red; redx; try congruence; try reflexivity).
Qed.

Lemma physical_char cache eff0 :
  exists l, count_physical_cores_run cfg cache eff0 = (Ret (fst (physical_spec cfg cache)), l)
            /\ count_physical_cores_v_eff l = eff0
            /\ count_physical_cores_v_physical_cores_cache l = snd (physical_spec cfg cache).
Proof.
  unfold count_physical_cores_run, count_physical_cores_body, physical_spec.
  count_physical_cores_red; redx.
  repeat (dstep; count_physical_cores_red; redx; try congruence).
  all: eexists; split; [reflexivity|split; reflexivity].
Qed.

Theorem cpu_count_char flag cache eff0 :
  exists l, cpu_count_run cfg flag cache eff0 = (fst (fst (cpu_count_spec cfg flag cache)), l)
            /\ cpu_count_v_eff l = (eff0 ++ snd (fst (cpu_count_spec cfg flag cache)))%list
            /\ cpu_count_v_physical_cores_cache l = snd (cpu_count_spec cfg flag cache).
Proof.
  unfold cpu_count_run, cpu_count_body, cpu_count_spec.
  cpu_count_red; redx.
  rewrite user_char. redx.
  destruct (user_spec cfg (opt_int_or (c_os_cpu_count cfg) 1)) as [[user|e] w]; cpu_count_red; redx.
  2:{ eexists; split; [reflexivity|split; reflexivity]. }
  destruct flag; cpu_count_red; redx.
  2:{ eexists; split; [reflexivity|split; reflexivity]. }
  destruct (user <? opt_int_or (c_os_cpu_count cfg) 1)%Z; cpu_count_red; redx.
  1:{ eexists; split; [reflexivity|split; reflexivity]. }
  match goal with |- context[count_physical_cores_run cfg ?c ?e] =>
    destruct (physical_char c e) as (l2 & E & He & Hc); rewrite E end.
  cpu_count_red; redx. rewrite He, Hc.
  destruct (physical_spec cfg cache) as [[ph ex] cache']. redx.
  repeat (dstep; cpu_count_red; redx; try congruence).
  all: eexists; split; [reflexivity|split; try reflexivity].
  all: rewrite ?app_nil_r, <- ?app_assoc; reflexivity.
Qed.

End C.
