(* The source text of the synchronisation methods that Model/Cond.v and Model/Sem.v were written against
   (snapshot taken when the models were written), and the generated constructor parameters.
   If loky/backend/synchronize.py changes in any of these methods, [reflexivity] fails here: the hand-written
   model no longer provably corresponds and the check goes to its search step. *)
From Coq Require Import List String Ascii ZArith Bool.
From LokyV Require Import Lib.PyLib Model.Sem Gen.Sync.
Import ListNotations.
Open Scope string_scope.

Lemma lock_params_ok : lock_params = (Semaphore, 1, 1). Proof. reflexivity. Qed.
Lemma rlock_params_ok : rlock_params = (RecursiveMutex, 1, 1). Proof. reflexivity. Qed.
Lemma semaphore_params_ok : forall v, semaphore_params v = (Semaphore, v, SEM_VALUE_MAX). Proof. reflexivity. Qed.
Lemma bounded_params_ok : forall v, bounded_params v = (Semaphore, v, v). Proof. reflexivity. Qed.
Definition expected_src_Condition_init : string := (String.concat nl ["(self, lock)"; "self._lock = lock or RLock()"; "self._sleeping_count = Semaphore(0)"; "self._woken_count = Semaphore(0)"; "self._wait_semaphore = Semaphore(0)"; "self._make_methods()"]).
Lemma src_Condition_init_ok : src_Condition_init = expected_src_Condition_init. Proof. reflexivity. Qed.
Definition expected_src_Condition_wait : string := (String.concat nl ["(self, timeout)"; "assert self._lock._semlock._is_mine(), 'must acquire() condition before using wait()'"; "self._sleeping_count.release()"; "count = self._lock._semlock._count()"; "for _ in range(count):"; "    self._lock.release()"; "try:"; "    return self._wait_semaphore.acquire(True, timeout)"; "finally:"; "    self._woken_count.release()"; "    for _ in range(count):"; "        self._lock.acquire()"]).
Lemma src_Condition_wait_ok : src_Condition_wait = expected_src_Condition_wait. Proof. reflexivity. Qed.
Definition expected_src_Condition_notify : string := (String.concat nl ["(self)"; "assert self._lock._semlock._is_mine(), 'lock is not owned'"; "assert not self._wait_semaphore.acquire(False)"; "while self._woken_count.acquire(False):"; "    res = self._sleeping_count.acquire(False)"; "    assert res"; "if self._sleeping_count.acquire(False):"; "    self._wait_semaphore.release()"; "    self._woken_count.acquire()"; "    self._wait_semaphore.acquire(False)"]).
Lemma src_Condition_notify_ok : src_Condition_notify = expected_src_Condition_notify. Proof. reflexivity. Qed.
Definition expected_src_Condition_notify_all : string := (String.concat nl ["(self)"; "assert self._lock._semlock._is_mine(), 'lock is not owned'"; "assert not self._wait_semaphore.acquire(False)"; "while self._woken_count.acquire(False):"; "    res = self._sleeping_count.acquire(False)"; "    assert res"; "sleepers = 0"; "while self._sleeping_count.acquire(False):"; "    self._wait_semaphore.release()"; "    sleepers += 1"; "if sleepers:"; "    for _ in range(sleepers):"; "        self._woken_count.acquire()"; "    while self._wait_semaphore.acquire(False):"; "        pass"]).
Lemma src_Condition_notify_all_ok : src_Condition_notify_all = expected_src_Condition_notify_all. Proof. reflexivity. Qed.
Definition expected_src_SemLock_getstate : string := (String.concat nl ["(self)"; "assert_spawning(self)"; "sl = self._semlock"; "h = sl.handle"; "return (h, sl.kind, sl.maxvalue, sl.name)"]).
Lemma src_SemLock_getstate_ok : src_SemLock_getstate = expected_src_SemLock_getstate. Proof. reflexivity. Qed.
Definition expected_src_SemLock_setstate : string := (String.concat nl ["(self, state)"; "self._semlock = _SemLock._rebuild(*state)"; "util.debug(f'recreated blocker with handle {state[0]!r} and name ""{state[3]}""')"; "self._make_methods()"]).
Lemma src_SemLock_setstate_ok : src_SemLock_setstate = expected_src_SemLock_setstate. Proof. reflexivity. Qed.
Definition expected_src_SemLock_make_methods : string := (String.concat nl ["(self)"; "self.acquire = self._semlock.acquire"; "self.release = self._semlock.release"]).
Lemma src_SemLock_make_methods_ok : src_SemLock_make_methods = expected_src_SemLock_make_methods. Proof. reflexivity. Qed.
Definition expected_src_SemLock_enter : string := (String.concat nl ["(self)"; "return self._semlock.acquire()"]).
Lemma src_SemLock_enter_ok : src_SemLock_enter = expected_src_SemLock_enter. Proof. reflexivity. Qed.
Definition expected_src_SemLock_exit : string := (String.concat nl ["(self)"; "return self._semlock.release()"]).
Lemma src_SemLock_exit_ok : src_SemLock_exit = expected_src_SemLock_exit. Proof. reflexivity. Qed.
Definition sync_methods_unchanged := (src_Condition_init_ok, src_Condition_wait_ok, src_Condition_notify_ok, src_Condition_notify_all_ok, src_SemLock_getstate_ok, src_SemLock_setstate_ok, src_SemLock_make_methods_ok, src_SemLock_enter_ok, src_SemLock_exit_ok).
