(* Characterisation: the generated translation of resource_tracker.main (Gen/Tracker.v)
   computes exactly Spec/TrackerSpec.main_spec.  These are the only proofs that unfold
   generated code; they are re-checked on every run against the regenerated file. *)
From Coq Require Import List String Ascii ZArith Bool Lia.
From LokyV Require Import Lib.PyLib Lib.StmTac Gen.Tracker Spec.TrackerSpec.
Import ListNotations.
Open Scope string_scope.

Section C.
Variable O : oracle.

Ltac red1 := tracker_main_red;
  cbv beta iota zeta delta [fst snd orb negb dgetitem ddel dmem known do_cleanup].
Ltac red2 := unlink_resources_red;
  cbv beta iota zeta delta [fst snd orb negb dgetitem ddel dmem known do_cleanup].

Definition abs (l : tracker_main_L) :=
  (tracker_main_v_registry l, tracker_main_v_eff l, tracker_main_v_verbose l).

(* one request line *)
Lemma loop1_char : forall line l, exists l',
  (tracker_main_loop1 O (tracker_main_set_line line l) = (Norm, l')
   \/ tracker_main_loop1 O (tracker_main_set_line line l) = (Cont, l'))
  /\ abs l' =
     (let st := step_line cleanup_keys (tracker_main_v_registry l, tracker_main_v_eff l) line in
      (fst st, snd st, tracker_main_v_verbose l)).
Proof.
  intros line l. destruct l as [x1 x2 x3 x4 x5 x6 x7 x8 x9 x10 x11].
  unfold tracker_main_loop1, abs, step_line, handle, parse3.
  red1.
  repeat (dstep; red1; rewrite ?dget_dset_same, ?dget_keys; red1; try congruence).
  all: leaf.
Qed.

(* the sweep of one resource type *)
Definition abs_u (l : unlink_resources_L) :=
  (unlink_resources_v_eff l, unlink_resources_v_rtype l, unlink_resources_v_verbose l).

Lemma unlink_loop_char : forall n l, exists l',
  (unlink_resources_loop1 O (unlink_resources_set_name n l) = (Norm, l')
   \/ unlink_resources_loop1 O (unlink_resources_set_name n l) = (Cont, l'))
  /\ abs_u l' =
     ((if known cleanup_keys (unlink_resources_v_rtype l)
       then do_cleanup (unlink_resources_v_eff l) (unlink_resources_v_rtype l) n
       else unlink_resources_v_eff l),
      unlink_resources_v_rtype l, unlink_resources_v_verbose l).
Proof.
  intros n l. destruct l as [x1 x2 x3 x4 x5].
  unfold unlink_resources_loop1, abs_u. red2.
  repeat (dstep; red2; try congruence).
  all: leaf.
Qed.

Lemma unlink_resources_char : forall d t v effs,
  unlink_resources O d t v effs = (Norm, sweep_type cleanup_keys effs t d).
Proof.
  intros d t v effs. unfold unlink_resources, unlink_resources_run, unlink_resources_body.
  unfold sweep_type.
  set (f := fun (s : list eff * string * bool) (n : string) =>
              (if known cleanup_keys (snd (fst s)) then do_cleanup (fst (fst s)) (snd (fst s)) n
               else fst (fst s), snd (fst s), snd s)).
  assert (H : forall xs l, exists l',
             for_loop xs unlink_resources_set_name (unlink_resources_loop1 O) l = (Norm, l')
             /\ abs_u l' = fold_left f xs (abs_u l)).
  { apply for_loop_abs. intros x l. destruct (unlink_loop_char x l) as [l' [E Ha]].
    exists l'. split; [exact E|]. rewrite Ha. destruct l; reflexivity. }
  assert (Hf : forall xs e, fold_left f xs (e, t, v) =
             (fold_left (fun e n => if known cleanup_keys t then do_cleanup e t n else e) xs e, t, v)).
  { induction xs as [|x xs IH]; intros e; cbn [fold_left]; [reflexivity|].
    unfold f at 2. cbn [fst snd]. apply IH. }
  assert (G : forall l0, unlink_resources_v_eff l0 = effs -> unlink_resources_v_rtype l0 = t ->
              unlink_resources_v_verbose l0 = v ->
              (let '(c, l) := for_loop (dkeys d) unlink_resources_set_name (unlink_resources_loop1 O) l0 in
               (c, unlink_resources_v_eff l)) =
              (Norm, fold_left (fun e n => if known cleanup_keys t then do_cleanup e t n else e) (dkeys d) effs)).
  { intros l0 H1 H2 H3. destruct (H (dkeys d) l0) as [l' [E Ha]]. rewrite E.
    unfold abs_u in Ha. rewrite H1, H2, H3, Hf in Ha.
    pose proof (f_equal (fun p => fst (fst p)) Ha) as He; cbn [fst snd] in He. rewrite He. reflexivity. }
  destruct d as [|kv d']; red2; [reflexivity|].
  apply G; reflexivity.
Qed.

(* the sweep loop over the registry (non-folder types) *)
Lemma loop2_char : forall kv l, exists l',
  (tracker_main_loop2 O ((fun '(x0, x1) l => tracker_main_set_rtype_registry x1 (tracker_main_set_rtype x0 l)) kv l) = (Norm, l')
   \/ tracker_main_loop2 O ((fun '(x0, x1) l => tracker_main_set_rtype_registry x1 (tracker_main_set_rtype x0 l)) kv l) = (Cont, l'))
  /\ abs l' =
     (tracker_main_v_registry l,
      (if String.eqb (fst kv) "folder" then tracker_main_v_eff l
       else sweep_type cleanup_keys (tracker_main_v_eff l) (fst kv) (snd kv)),
      tracker_main_v_verbose l).
Proof.
  intros [k inner] l. destruct l as [x1 x2 x3 x4 x5 x6 x7 x8 x9 x10 x11].
  unfold tracker_main_loop2, abs. red1.
  destruct (String.eqb k "folder") eqn:Ek; red1.
  - leaf.
  - rewrite unlink_resources_char. red1. leaf.
Qed.

Theorem tracker_main_char : forall lines verbose effs0,
  tracker_main O lines verbose effs0 = (Norm, main_spec cleanup_keys lines effs0).
Proof.
  intros lines verbose effs0.
  unfold tracker_main, tracker_main_run, tracker_main_body, main_spec.
  (* the request loop *)
  set (f1 := fun (s : registry * list eff * bool) (line : string) =>
               let st := step_line cleanup_keys (fst (fst s), snd (fst s)) line in
               (fst st, snd st, snd s)).
  assert (H1 : forall xs l, exists l',
             for_loop xs tracker_main_set_line (tracker_main_loop1 O) l = (Norm, l')
             /\ abs l' = fold_left f1 xs (abs l)).
  { apply for_loop_abs. intros x l. destruct (loop1_char x l) as [l' [E Ha]].
    exists l'. split; [exact E|]. rewrite Ha. destruct l; reflexivity. }
  assert (Hf1 : forall xs r e, fold_left f1 xs (r, e, verbose) =
             (fst (fold_left (step_line cleanup_keys) xs (r, e)),
              snd (fold_left (step_line cleanup_keys) xs (r, e)), verbose)).
  { induction xs as [|x xs IH]; intros r e; cbn [fold_left]; [reflexivity|].
    unfold f1 at 2. cbn [fst snd].
    destruct (step_line cleanup_keys (r, e) x) as [r' e'] eqn:Es. cbn [fst snd]. apply IH. }
  (* the sweep loop *)
  set (f2 := fun (s : registry * list eff * bool) (kv : string * dict Z) =>
               (fst (fst s),
                (if String.eqb (fst kv) "folder" then snd (fst s)
                 else sweep_type cleanup_keys (snd (fst s)) (fst kv) (snd kv)),
                snd s)).
  assert (H2 : forall xs l, exists l',
             for_loop xs (fun '(x0, x1) l => tracker_main_set_rtype_registry x1 (tracker_main_set_rtype x0 l))
                      (tracker_main_loop2 O) l = (Norm, l')
             /\ abs l' = fold_left f2 xs (abs l)).
  { apply for_loop_abs. intros x l. destruct (loop2_char x l) as [l' [E Ha]].
    exists l'. split; [exact E|]. rewrite Ha. destruct l; reflexivity. }
  assert (Hf2 : forall xs r e, fold_left f2 xs (r, e, verbose) =
             (r, fold_left (fun e (kv : string * dict Z) =>
                              if String.eqb (fst kv) "folder" then e
                              else sweep_type cleanup_keys e (fst kv) (snd kv)) xs e, verbose)).
  { induction xs as [|x xs IH]; intros r e; cbn [fold_left]; [reflexivity|].
    unfold f2 at 2. cbn [fst snd]. apply IH. }
  remember (fold_left (step_line cleanup_keys) lines
              (init_registry cleanup_keys, (effs0 ++ prologue)%list)) as st0 eqn:Hst0.
  destruct verbose; red1.
  all: match goal with
       | |- context[for_loop ?xs ?st (tracker_main_loop1 O) ?l0] =>
           change (for_loop xs st (tracker_main_loop1 O) l0)
             with (for_loop xs tracker_main_set_line (tracker_main_loop1 O) l0);
           destruct (H1 xs l0) as [l1 [E1 Ha1]]; rewrite E1
       end.
  all: unfold abs in Ha1; cbn [tracker_main_v_registry tracker_main_v_eff tracker_main_v_verbose] in Ha1.
  all: match type of Ha1 with
       | context[fold_left _ _ ?s] =>
           replace s with (init_registry cleanup_keys, (effs0 ++ prologue)%list, snd s) in Ha1
             by (unfold init_registry, prologue; cbn [snd]; rewrite ?dkeys_keys, <- ?app_assoc; reflexivity)
       end.
  all: cbn [snd] in Ha1; rewrite Hf1, <- Hst0 in Ha1; destruct st0 as [rr ee]; cbn [fst snd] in Ha1;
    destruct l1 as [y1 y2 y3 y4 y5 y6 y7 y8 y9 y10 y11];
    cbn [tracker_main_v_registry tracker_main_v_eff tracker_main_v_verbose] in Ha1;
    inversion Ha1 as [[Hr He Hv]]; clear Ha1; red1.
  all: match goal with
       | |- context[for_loop ?xs ?st (tracker_main_loop2 O) ?l0] =>
           change (for_loop xs st (tracker_main_loop2 O) l0)
             with (for_loop xs (fun '(x0, x1) l => tracker_main_set_rtype_registry x1 (tracker_main_set_rtype x0 l))
                            (tracker_main_loop2 O) l0);
           destruct (H2 xs l0) as [l2 [E2 Ha2]]; rewrite E2
       end.
  all: unfold abs in Ha2; cbn [tracker_main_v_registry tracker_main_v_eff tracker_main_v_verbose] in Ha2;
    rewrite Hf2 in Ha2; destruct l2 as [z1 z2 z3 z4 z5 z6 z7 z8 z9 z10 z11];
    cbn [tracker_main_v_registry tracker_main_v_eff tracker_main_v_verbose] in Ha2;
    inversion Ha2 as [[Hr2 He2 Hv2]]; clear Ha2; red1.
  all: unfold sweep, ditems; cbn [fst snd].
  all: destruct (dget rr "folder") eqn:Ef; red1.
  all: rewrite ?unlink_resources_char; reflexivity.
Qed.
End C.
