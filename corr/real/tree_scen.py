"""Real-process scenarios for C12 / C13: a controller starts a *root* python process that builds a loky process
tree, then ends it in a chosen way and watches what the resource tracker does afterwards."""

ROOT = r'''
import gc, glob, json, os, signal, sys, tempfile, time, warnings
import loky.backend.resource_tracker as rt
from loky.backend import get_context

# a tracked operation at import time of the main module: with start method loky_init_main every member re-imports this module
# while it is being prepared, and must already be talking to the tree's tracker then
_MODULE_LEVEL_LOCK = get_context("loky").Lock()

def report(d, tag, extra=None):
    info = {"pid": os.getpid(), "tag": tag, "tracker_pid": rt._resource_tracker._pid, "tracker_fd": rt._resource_tracker._fd}
    info.update(extra or {})
    with open(os.path.join(d, f"{tag}.json"), "w") as f:
        json.dump(info, f)

def node(d, tag, depth, maxd, method, mode):
    # a member of the tree: creates primitives, registers a file, spawns a child, then waits to be told what to do
    ctx = get_context(method)
    prims = [ctx.Lock(), ctx.Semaphore(2), ctx.Condition(), ctx.Event()]
    names = [p._semlock.name for p in prims[:2]] + [prims[2]._lock._semlock.name, prims[3]._flag._semlock.name]
    path = os.path.join(d, f"res_{tag}.txt")
    open(path, "w").write("x")
    rt.register(path, "file")
    kids = []
    if depth < maxd:
        p = ctx.Process(target=node, args=(d, tag + "c", depth + 1, maxd, method, mode))
        p.start()
        kids.append(p)
    report(d, tag, {"sem_names": names, "file": path, "depth": depth})
    while not os.path.exists(os.path.join(d, "go")):
        time.sleep(0.02)
    if mode == "exception" and depth == maxd:
        raise RuntimeError("uncaught in the deepest member")
    if mode == "os_exit":
        os._exit(3)
    if mode == "collect":
        del prims
        gc.collect()
        report(d, tag + "_after_gc", {"left": [n for n in names if os.path.exists("/dev/shm/sem." + n.lstrip("/"))]})
    for k in kids:
        k.join(20)

if __name__ == "__main__":
    d, mode, method, maxd = sys.argv[1], sys.argv[2], sys.argv[3], int(sys.argv[4])
    rt.ensure_running()
    if mode == "heal":
        old = rt._resource_tracker._pid
        os.kill(old, signal.SIGKILL)
        time.sleep(0.3)
        with warnings.catch_warnings(record=True) as w:
            warnings.simplefilter("always")
            err = None
            try:
                rt.register(os.path.join(d, "whatever"), "file")
                rt.unregister(os.path.join(d, "whatever"), "file")
            except BaseException as e:
                err = repr(e)
        new = rt._resource_tracker._pid
        alive = True
        try:
            os.kill(new, 0)
        except OSError:
            alive = False
        # repeated death
        os.kill(new, signal.SIGKILL); time.sleep(0.3)
        try:
            rt.maybe_unlink(os.path.join(d, "whatever2"), "file"); err2 = None
        except BaseException as e:
            err2 = repr(e)
        report(d, "root", {"old": old, "new": new, "new_alive": alive, "error": err, "error2": err2,
                           "warned": any("died unexpectedly" in str(x.message) for x in w),
                           "third": rt._resource_tracker._pid})
        sys.exit(0)
    node(d, "n", 0, maxd, method, mode)
'''

CONTROLLER = r'''
import glob, json, os, signal, subprocess, sys, tempfile, time
root_py, mode, method, maxd, killorder = sys.argv[1], sys.argv[2], sys.argv[3], int(sys.argv[4]), sys.argv[5]
d = tempfile.mkdtemp(prefix="lokyv_tree_")
env = dict(os.environ)
p = subprocess.Popen([sys.executable, root_py, d, mode, method, str(maxd)], env=env, stdout=subprocess.DEVNULL, stderr=subprocess.PIPE)
out = {"mode": mode, "method": method, "maxd": maxd}
def members():
    ms = {}
    for f in glob.glob(os.path.join(d, "n*.json")) + glob.glob(os.path.join(d, "root.json")):
        try:
            ms[os.path.basename(f)[:-5]] = json.load(open(f))
        except Exception:
            pass
    return ms
def alive(pid):
    try:
        os.kill(pid, 0)
    except OSError:
        return False
    try:
        return open(f"/proc/{pid}/stat").read().split()[2] != "Z"
    except OSError:
        return False
t0 = time.time()
want = 1 if mode == "heal" else maxd + 1
while time.time() - t0 < 60:
    ms = {k: v for k, v in members().items() if not k.endswith("_after_gc")}
    if len(ms) >= want:
        break
    time.sleep(0.05)
ms = members()
out["members"] = ms
if mode == "heal":
    p.wait(30)
    print(json.dumps(out)); sys.exit(0)
tpids = sorted({m["tracker_pid"] for m in ms.values()})
out["tracker_pids"] = tpids
def tracker_processes():
    me = os.getpgid(0); found = []
    for x in os.listdir("/proc"):
        if x.isdigit():
            try:
                cmd = open(f"/proc/{x}/cmdline").read()
                st = open(f"/proc/{x}/stat").read(); f = st[st.rindex(")") + 2:].split()
                if "loky.backend.resource_tracker" in cmd and int(f[2]) == me and f[0] != "Z":
                    found.append(int(x))
            except (OSError, ValueError):
                pass
    return sorted(found)
out["tracker_processes_in_tree"] = tracker_processes()
tp = tpids[0] if tpids else None
names = [n for m in ms.values() for n in m.get("sem_names", [])]
files = [m["file"] for m in ms.values() if "file" in m]
out["sems_exist_while_alive"] = all(os.path.exists("/dev/shm/sem." + n.lstrip("/")) for n in names)
if mode == "signals" and tp:
    for sig in (signal.SIGINT, signal.SIGTERM, signal.SIGINT, signal.SIGTERM):
        os.kill(tp, sig); time.sleep(0.05)
    time.sleep(0.3)
    out["tracker_alive_after_signals"] = alive(tp)
pids = [m["pid"] for k, m in sorted(ms.items()) if not k.endswith("_after_gc")]
if mode in ("sigkill",):
    order = pids if killorder == "rootfirst" else list(reversed(pids))
    for i, pid in enumerate(order):
        os.kill(pid, signal.SIGKILL)
        time.sleep(0.15)
        if i < len(order) - 1:
            out.setdefault("tracker_alive_between_kills", []).append(alive(tp))
            out.setdefault("files_exist_between_kills", []).append(all(os.path.exists(f) for f in files))
else:
    open(os.path.join(d, "go"), "w").close()
try:
    p.wait(40)
except Exception:
    p.kill()
out["root_rc"] = p.returncode
if mode == "collect":
    out["after_gc"] = {k: v.get("left") for k, v in members().items() if k.endswith("_after_gc")}
t0 = time.time()
while time.time() - t0 < 20 and tp and alive(tp):
    time.sleep(0.05)
out["tracker_exited"] = not (tp and alive(tp))
out["tracker_exit_delay_s"] = round(time.time() - t0, 2)
time.sleep(0.2)
out["sems_left"] = [n for n in names if os.path.exists("/dev/shm/sem." + n.lstrip("/"))]
out["files_left"] = [f for f in files if os.path.exists(f)]
out["stderr_tail"] = p.stderr.read().decode(errors="replace")[-1500:]
import shutil; shutil.rmtree(d, ignore_errors=True)
print(json.dumps(out))
'''


# Signals aimed at the tracker's start-up window: a thread fires SIGINT/SIGTERM at the new tracker the moment its pid is known
# (the interpreter of the tracker is still booting then); between rounds the tracker is SIGKILLed so that the next tracked
# operation starts a fresh one.
STORM = r'''
import json, os, signal, sys, threading, time, warnings
warnings.simplefilter("ignore")
from loky.backend import resource_tracker as rt
def alive(pid):
    try:
        os.kill(pid, 0)
    except OSError:
        return False
    try:
        return open(f"/proc/{pid}/stat").read().rsplit(")", 1)[1].split()[0] != "Z"
    except OSError:
        return False
rounds = int(sys.argv[1])
tr = rt._resource_tracker
stop = False
sent = []
def hunter():
    last = None
    while not stop:
        pid = tr._pid
        if pid is not None and pid != last:
            last = pid
            for k in range(6):
                try:
                    os.kill(pid, signal.SIGTERM if k % 2 else signal.SIGINT)
                    sent.append(pid)
                except OSError:
                    break
                time.sleep(0.004)
th = threading.Thread(target=hunter, daemon=True); th.start()
dead, pids = [], []
for r in range(rounds):
    rt.ensure_running()
    pid = tr._pid
    pids.append(pid)
    time.sleep(0.12)
    for sig in (signal.SIGINT, signal.SIGTERM):
        os.kill(pid, sig) if alive(pid) else None
    time.sleep(0.03)
    if not alive(pid):
        dead.append(pid)
    else:
        os.kill(pid, signal.SIGKILL)
        t0 = time.time()
        while alive(pid) and time.time() - t0 < 5:
            try:
                os.waitpid(pid, os.WNOHANG)
            except OSError:
                pass
            time.sleep(0.005)
stop = True
print(json.dumps({"rounds": rounds, "distinct_trackers": len(set(pids)), "signals_sent": len(sent), "died_of_signals": dead}))
'''


# Several threads of one process perform tracked operations together while no tracker is up (first start-up) and after the
# tracker was SIGKILLed: exactly one tracker must be started each time, no operation may fail, and nothing registered by this
# (living) process may be destroyed.  Launches are counted by wrapping the spawn helper the tracker module calls.
THREADS = r'''
import json, os, signal, sys, tempfile, threading, time, warnings
warnings.simplefilter("ignore")
from loky.backend import resource_tracker as rt
rounds, nthreads = int(sys.argv[1]), int(sys.argv[2])
tr = rt._resource_tracker
launched = []
_orig = rt.spawnv_passfds
def counting(*a, **k):
    pid = _orig(*a, **k)
    launched.append(pid)
    return pid
rt.spawnv_passfds = counting
def alive(pid):
    try:
        return open(f"/proc/{pid}/stat").read().rsplit(")", 1)[1].split()[0] != "Z"
    except OSError:
        return False
d = tempfile.mkdtemp(prefix="lokyv_thr_")
report = []
for r in range(rounds):
    before = len(launched)
    bar = threading.Barrier(nthreads)
    errors, files = [], []
    def work(i):
        path = os.path.join(d, f"r{r}_t{i}")
        open(path, "w").close()
        files.append(path)
        bar.wait()
        try:
            rt.register(path, "file")
        except BaseException as e:
            errors.append(repr(e)[:120])
    ths = [threading.Thread(target=work, args=(i,)) for i in range(nthreads)]
    [t.start() for t in ths]; [t.join(30) for t in ths]
    time.sleep(0.4)
    new = launched[before:]
    report.append({"round": r, "launched": len(new), "errors": errors, "missing": [os.path.basename(f) for f in files if not os.path.exists(f)],
                   "alive": sum(1 for p in set(launched) if alive(p)), "current_alive": tr._pid is not None and alive(tr._pid)})
    if r + 1 < rounds:
        pid = tr._pid
        os.kill(pid, signal.SIGKILL)
        t0 = time.time()
        while alive(pid) and time.time() - t0 < 5:
            time.sleep(0.005)
for f in os.listdir(d):
    try:
        if os.path.join(d, f) in files and report[-1]["launched"] == 1:      # the others were known to trackers that are gone
            rt.unregister(os.path.join(d, f), "file")
    except BaseException:
        pass
    try:
        os.unlink(os.path.join(d, f))
    except OSError:
        pass
os.rmdir(d) if not os.listdir(d) else None
print(json.dumps({"rounds": report}))
'''
