"""C20: parent-side resource ledger of executor lifecycles, measured on the real code.
One process per plan: warm-up (1 run of the history, so that trackers and lazily imported modules exist), then the history once
more -> counts A, then k more times -> counts B.  The property is A == B (component-wise)."""

SCRIPT = r'''
import gc, glob, json, os, signal, sys, threading, time, warnings, random
warnings.simplefilter("ignore")

def slow(t):
    time.sleep(t); return t
def ident(x):
    return x
def boom(x):
    raise ValueError(x)
def die(code):
    os._exit(code)
def selfkill():
    os.kill(os.getpid(), signal.SIGKILL)
def nested(n):
    from loky import ProcessPoolExecutor
    with ProcessPoolExecutor(2) as e:
        return sum(e.map(ident, range(n)))
class Unpicklable:
    def __reduce__(self):
        raise RuntimeError("no pickle")
def ret_unpicklable():
    return Unpicklable()

def children():
    me = os.getpid(); out = []
    for d in os.listdir("/proc"):
        if d.isdigit():
            try:
                st = open(f"/proc/{d}/stat").read()
                f = st[st.rindex(")") + 2:].split()
                if int(f[1]) == me:
                    cmd = open(f"/proc/{d}/cmdline").read().replace("\0", " ")
                    out.append((int(d), f[0], "tracker" if "resource_tracker" in cmd else "child"))
            except (OSError, ValueError):
                pass
    return out

def fds():
    out = []
    for f in os.listdir("/proc/self/fd"):
        try:
            out.append(os.readlink(f"/proc/self/fd/{f}").split(":")[0])
        except OSError:
            pass
    return sorted(out)

def counts():
    ch = children()
    return {"fds": len(fds()), "threads": len(threading.enumerate()),
            "children": len([c for c in ch if c[2] == "child"]), "zombies": len([c for c in ch if c[1] == "Z" and c[2] == "child"]),
            "sems": len([s for s in glob.glob("/dev/shm/sem.loky-*") if f"loky-{os.getpid()}-" in s])}

def settle(ref=None, budget=8.0):
    """threads told to stop (queue feeder) end a moment later; wait until the counts stop moving (and, if given, reach ref)"""
    t0 = time.time(); last = None; stable = 0
    while time.time() - t0 < budget:
        gc.collect()
        c = counts()
        if c == last:
            stable += 1
        else:
            stable = 0
        last = c
        if stable >= 3 and (ref is None or c == ref or time.time() - t0 > budget / 2):
            break
        time.sleep(0.03)
    return last

# ---- lifecycles: each creates, uses and fully releases executors ----
def lc_plain(rng):
    from loky import ProcessPoolExecutor
    e = ProcessPoolExecutor(rng.choice([1, 2, 3]))
    assert list(e.map(ident, range(5))) == list(range(5))
    e.shutdown(wait=True)
def lc_with(rng):
    from loky import ProcessPoolExecutor
    with ProcessPoolExecutor(2) as e:
        fs = [e.submit(ident, i) for i in range(6)]
        [f.result(30) for f in fs]
def lc_nowait(rng):
    from loky import ProcessPoolExecutor
    e = ProcessPoolExecutor(2)
    fs = [e.submit(slow, 0.02) for i in range(4)]
    e.shutdown(wait=False)
    [f.result(30) for f in fs]
    t = [x for x in threading.enumerate() if "ExecutorManager" in x.name]
    del e, fs
    for x in t:
        x.join(30)
def lc_kill(rng):
    from loky import ProcessPoolExecutor
    e = ProcessPoolExecutor(2)
    fs = [e.submit(slow, 5) for i in range(4)]
    time.sleep(rng.choice([0.0, 0.05, 0.3]))
    e.shutdown(wait=True, kill_workers=True)
    for f in fs:
        try:
            f.result(30)
        except Exception:
            pass
def slow_blob(t, blob):
    time.sleep(t)
    return len(blob)
def lc_kill_bigargs(rng):
    # a forced shutdown while the call queue's feeder thread is writing a large task into the full pipe (finding H17)
    from loky import ProcessPoolExecutor
    e = ProcessPoolExecutor(2)
    blob = b"x" * (1 << 20)
    fs = [e.submit(slow_blob, 30, blob) for _ in range(6)]
    time.sleep(0.8)
    e.shutdown(wait=True, kill_workers=True)
    for f in fs:
        try:
            f.result(30)
        except Exception:
            pass
def lc_broken_bigargs(rng):
    # the pool breaks while the feeder thread is blocked in the same way
    from loky import ProcessPoolExecutor
    e = ProcessPoolExecutor(2)
    blob = b"x" * (1 << 20)
    fs = [e.submit(slow_blob, 30, blob) for _ in range(6)]
    time.sleep(0.8)
    os.kill(list(e._processes)[0], 9)
    for f in fs:
        try:
            f.result(30)
        except Exception:
            pass
    e.shutdown(wait=True)
def lc_bad_initargs(rng):
    # a worker cannot be started: its initargs do not pickle (the spawn fails half-way, after the queues were reduced)
    from loky import ProcessPoolExecutor
    import threading
    e = ProcessPoolExecutor(2, initializer=ident, initargs=(threading.Lock(),))
    for _ in range(2):
        try:
            e.submit(ident, 1).result(30)
        except BaseException:
            pass
    e.shutdown(wait=True)
def lc_broken_exit(rng):
    from loky import ProcessPoolExecutor
    e = ProcessPoolExecutor(2)
    list(e.map(ident, range(3)))
    f = e.submit(die, 3)
    try:
        f.result(30)
    except Exception:
        pass
    e.shutdown(wait=True)
def lc_broken_kill(rng):
    from loky import ProcessPoolExecutor
    e = ProcessPoolExecutor(3)
    fs = [e.submit(slow, 0.3) for _ in range(3)] + [e.submit(selfkill)]
    for f in fs:
        try:
            f.result(30)
        except Exception:
            pass
    e.shutdown(wait=True)
def lc_timeout(rng):
    from loky import ProcessPoolExecutor
    e = ProcessPoolExecutor(2, timeout=0.15)
    list(e.map(ident, range(3)))
    time.sleep(0.7)
    list(e.map(ident, range(3)))
    e.shutdown(wait=True)
def lc_gc(rng):
    from loky import ProcessPoolExecutor
    e = ProcessPoolExecutor(2)
    list(e.map(ident, range(3)))
    t = [x for x in threading.enumerate() if "ExecutorManager" in x.name]
    del e
    gc.collect()
    for x in t:
        x.join(30)
def lc_gc_contended(rng):
    """the executor is collected while another thread holds its shutdown lock for a moment (what submit, the flag setters, the feeder's
    error hook and the interpreter-exit hook do): the manager thread must still learn that its executor is gone"""
    from loky import ProcessPoolExecutor
    e = ProcessPoolExecutor(2)
    list(e.map(ident, range(3)))
    t = [x for x in threading.enumerate() if "ExecutorManager" in x.name]
    lock = e._shutdown_lock
    held = threading.Event()
    def hold():
        with lock:
            held.set()
            time.sleep(0.5)
    h = threading.Thread(target=hold); h.start(); held.wait(10)
    del e
    gc.collect()
    h.join(30); del lock
    for x in t:
        x.join(30)
def lc_never_started(rng):
    from loky import ProcessPoolExecutor
    e = ProcessPoolExecutor(2)
    if rng.random() < 0.5:
        e.shutdown()
    del e
def lc_errors(rng):
    from loky import ProcessPoolExecutor
    e = ProcessPoolExecutor(2)
    for fn, a in ((boom, (1,)), (ident, (Unpicklable(),)), (ret_unpicklable, ()), (ident, (2,))):
        try:
            e.submit(fn, *a).result(30)
        except Exception:
            pass
    e.shutdown(wait=True)
def lc_reusable_resize(rng):
    from loky import get_reusable_executor
    for n in (2, 3, 1):
        e = get_reusable_executor(max_workers=n, timeout=30)
        list(e.map(ident, range(4)))
    e.shutdown(wait=True)
def lc_reusable_broken(rng):
    from loky import get_reusable_executor
    e = get_reusable_executor(max_workers=2, timeout=30)
    try:
        e.submit(die, 1).result(30)
    except Exception:
        pass
    e = get_reusable_executor(max_workers=2, timeout=30)
    list(e.map(ident, range(4)))
    e = get_reusable_executor(max_workers=2, timeout=30, kill_workers=True, reuse=False)
    list(e.map(ident, range(2)))
    e.shutdown(wait=True)
def lc_reusable_timeout(rng):
    from loky import get_reusable_executor
    e = get_reusable_executor(max_workers=2, timeout=0.15)
    list(e.map(ident, range(4)))
    time.sleep(0.7)
    list(e.map(ident, range(4)))
    e.shutdown(wait=True)
def lc_nested(rng):
    from loky import ProcessPoolExecutor
    with ProcessPoolExecutor(2) as e:
        assert e.submit(nested, 4).result(60) == 6
def lc_nested_kill(rng):
    from loky import ProcessPoolExecutor
    e = ProcessPoolExecutor(2)
    f = e.submit(nested, 3); f.result(60)
    g = e.submit(slow, 5)
    e.shutdown(wait=True, kill_workers=True)

LC = {k[3:]: v for k, v in list(globals().items()) if k.startswith("lc_")}

def delta(base, c):
    return [c["fds"] - base["fds"], c["threads"] - base["threads"], c["children"] - base["children"], c["sems"] - base["sems"]]

def trace():
    """observation points of single life cycles: (label, model history, measured delta to the baseline)"""
    from loky import ProcessPoolExecutor
    try:
        import psutil; have = True
    except ImportError:
        have = False
    lc_plain(random.Random(0)); settle()          # warm-up
    import multiprocessing; multiprocessing.active_children()
    base = settle()
    out = []
    def obs(label, hist):
        out.append([label, hist, delta(base, settle(budget=3.0))])
    def mthreads():
        return [x for x in threading.enumerate() if "ExecutorManager" in x.name]
    # A: created, started, shut down (wait), dropped
    e = ProcessPoolExecutor(2)
    obs("created", [])
    e.submit(ident, 1).result(30)
    obs("started", ["Start 2", "Put"])
    e.shutdown(wait=True)
    obs("shutdown-wait-held", ["Start 2", "Put", "ShutdownCall false", "ManagerExitNormal", "ShutdownReturn true", "FeederEnds"])
    del e
    obs("shutdown-wait-dropped", ["Start 2", "Put", "ShutdownCall false", "ManagerExitNormal", "ShutdownReturn true", "FeederEnds", "Drop"])
    # B: shutdown(wait=False), manager gone, executor still held
    e = ProcessPoolExecutor(3)
    e.submit(ident, 1).result(30)
    t = mthreads()
    e.shutdown(wait=False)
    [x.join(30) for x in t]; del t
    obs("shutdown-nowait-held", ["Start 3", "Put", "ShutdownCall false", "ShutdownReturn false", "ManagerExitNormal", "FeederEnds"])
    del e
    obs("shutdown-nowait-dropped", ["Start 3", "Put", "ShutdownCall false", "ShutdownReturn false", "ManagerExitNormal", "FeederEnds", "Drop"])
    # C: broken pool, executor still held, then dropped
    e = ProcessPoolExecutor(3)
    e.submit(ident, 1).result(30)
    t = mthreads()
    try:
        e.submit(die, 3).result(30)
    except Exception:
        pass
    [x.join(30) for x in t]; del t
    obs("broken-held", ["Start 3", "Put", "Crash 1", "ManagerExitBroken", "FeederEnds"])
    del e
    obs("broken-dropped", ["Start 3", "Put", "Crash 1", "ManagerExitBroken", "FeederEnds", "Drop"])
    # D: the next life cycle's first spawn drops the stale Process object
    e = ProcessPoolExecutor(1)
    e.submit(ident, 1).result(30)
    obs("next-started", ["Start 3", "Put", "Crash 1", "ManagerExitBroken", "FeederEnds", "Drop", "NewExecutor", "Start 1", "Put"])
    e.shutdown(wait=True, kill_workers=True); del e
    obs("next-killed-dropped", ["Start 3", "Put", "Crash 1", "ManagerExitBroken", "FeederEnds", "Drop", "NewExecutor", "Start 1", "Put",
                                "ShutdownCall true", "ManagerExitNormal", "ShutdownReturn true", "FeederEnds", "Drop"])
    # E: never started
    e = ProcessPoolExecutor(2); e.shutdown()
    obs("never-started-shutdown-held", ["ShutdownCall false", "ShutdownReturn true"])
    del e
    obs("never-started-dropped", ["ShutdownCall false", "ShutdownReturn true", "Drop"])
    # F: idle time-out: both workers leave, the pool stays
    e = ProcessPoolExecutor(2, timeout=0.15)
    e.submit(ident, 1).result(30)
    time.sleep(1.0)
    obs("timed-out-idle", ["Start 2", "Put", "CleanExit 0", "CleanExit 0"])
    # the workers spawned from here on get a long idle time-out (read from the executor when a worker is started): with 0.15 s they
    # leave again while the observation settles, and the measurement below showed 0 children on a loaded machine (false alarm of the
    # thorough tier, seed 17)
    e._timeout = 60
    e.submit(ident, 1).result(30)
    obs("respawned", ["Start 2", "Put", "CleanExit 0", "CleanExit 0", "Spawn 2"])
    e.shutdown(wait=True); del e
    print(json.dumps({"psutil": have, "trace": out}))

if __name__ == "__main__":
    if sys.argv[1] == "--trace":
        trace(); sys.exit(0)
    names = sys.argv[1].split(","); k = int(sys.argv[2]); seed = int(sys.argv[3])
    rng = random.Random(seed)
    def history():
        for n in names:
            LC[n](rng)
        import multiprocessing
        gc.collect()
    history()                     # warm-up: trackers, lazy imports, atexit registrations
    settle()
    base = counts()
    history()
    A = settle(base)
    for _ in range(k):
        history()
    B = settle(A)
    print(json.dumps({"names": names, "k": k, "seed": seed, "after_warmup": base, "A": A, "B": B, "equal": A == B,
                      "fd_kinds_B": {x: fds().count(x) for x in set(fds())},
                      "threads_B": [t.name for t in threading.enumerate()], "children_B": children()}))
'''
