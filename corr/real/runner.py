"""Run a scenario script against /repo's loky in its own session; always reap the whole group.
Output goes to files (orphaned workers would otherwise keep a pipe open and wedge the caller)."""
import json
import os
import signal
import subprocess
import tempfile
import time

PY = "/venv/bin/python"


def run_script(code, repo="/repo", env=None, timeout=120, args=()):
    d = tempfile.mkdtemp(prefix="lokyv_")
    path = os.path.join(d, "scenario.py")
    with open(path, "w") as f:
        f.write(code)
    out = os.path.join(d, "out.txt")
    err = os.path.join(d, "err.txt")
    e = dict(os.environ)
    e.update({"PYTHONPATH": repo, "PYTHONHASHSEED": "0", "PYTHONDONTWRITEBYTECODE": "1"})
    e.pop("LOKY_MAX_DEPTH", None)
    e.update(env or {})
    t0 = time.time()
    with open(out, "w") as fo, open(err, "w") as fe:
        p = subprocess.Popen([PY, path, *map(str, args)], stdout=fo, stderr=fe, stdin=subprocess.DEVNULL,
                             env=e, cwd=d, start_new_session=True)
        try:
            rc = p.wait(timeout=timeout)
            timed_out = False
        except subprocess.TimeoutExpired:
            rc = None
            timed_out = True
        finally:
            try:
                os.killpg(p.pid, signal.SIGKILL)
            except ProcessLookupError:
                pass
            try:
                p.wait(timeout=10)
            except Exception:
                pass
    res = {"rc": rc, "timed_out": timed_out, "wall_s": round(time.time() - t0, 2),
           "stdout": open(out).read(), "stderr": open(err).read()[-4000:]}
    import shutil
    shutil.rmtree(d, ignore_errors=True)
    return res


def last_json(res):
    for line in reversed(res["stdout"].strip().splitlines()):
        line = line.strip()
        if line.startswith("{") or line.startswith("["):
            try:
                return json.loads(line)
            except ValueError:
                continue
    return None
