"""Run a scenario script against /repo's loky in its own session; always reap the whole group.
Output goes to files (orphaned workers would otherwise keep a pipe open and wedge the caller)."""
import json
import os
import signal
import subprocess
import tempfile
import time

PY = "/venv/bin/python"


def group_members(pgid):
    out = []
    for d in os.listdir("/proc"):
        if not d.isdigit():
            continue
        try:
            st = open(f"/proc/{d}/stat").read()
            fields = st[st.rindex(")") + 2:].split()
            if int(fields[2]) != pgid or fields[0] == "Z":
                continue
            cmd = open(f"/proc/{d}/cmdline").read().replace("\0", " ")
            out.append((int(d), cmd))
        except (OSError, ValueError):
            continue
    return out


def end_tree_sparing_trackers(pgid, wait_s=20.0):
    """The scenario's main process is gone: kill what is left of its tree EXCEPT resource trackers (the properties exclude
    killing those), then give the trackers time to sweep and leave.  Returns (killed pids, seconds until the group was empty)."""
    killed = []
    t0 = time.time()
    while time.time() - t0 < wait_s:
        mem = group_members(pgid)
        if not mem:
            return killed, round(time.time() - t0, 2)
        for pid, cmd in mem:
            if "resource_tracker" not in cmd and pid not in killed:
                try:
                    os.kill(pid, signal.SIGKILL)
                    killed.append(pid)
                except ProcessLookupError:
                    pass
        time.sleep(0.05)
    return killed, None


def run_script(code, repo="/repo", env=None, timeout=120, args=(), spare_trackers=False):
    d = tempfile.mkdtemp(prefix="lokyv_")
    path = os.path.join(d, "scenario.py")
    with open(path, "w") as f:
        f.write(code)
    out = os.path.join(d, "out.txt")
    err = os.path.join(d, "err.txt")
    e = dict(os.environ)
    e.update({"PYTHONPATH": repo, "PYTHONHASHSEED": "0", "PYTHONDONTWRITEBYTECODE": "1"})
    e.pop("LOKY_MAX_DEPTH", None)
    e.update(env or {})
    t0 = time.time()
    with open(out, "w") as fo, open(err, "w") as fe:
        p = subprocess.Popen([PY, path, *map(str, args)], stdout=fo, stderr=fe, stdin=subprocess.DEVNULL,
                             env=e, cwd=d, start_new_session=True)
        try:
            rc = p.wait(timeout=timeout)
            timed_out = False
        except subprocess.TimeoutExpired:
            rc = None
            timed_out = True
        finally:
            spared = None
            if spare_trackers and not timed_out:
                spared = end_tree_sparing_trackers(p.pid)
            try:
                os.killpg(p.pid, signal.SIGKILL)
            except ProcessLookupError:
                pass
            try:
                p.wait(timeout=10)
            except Exception:
                pass
    res = {"rc": rc, "timed_out": timed_out, "wall_s": round(time.time() - t0, 2),
           "stdout": open(out).read(), "stderr": open(err).read()[-4000:], "spared": spared}
    import shutil
    shutil.rmtree(d, ignore_errors=True)
    return res


def last_json(res):
    for line in reversed(res["stdout"].strip().splitlines()):
        line = line.strip()
        if line.startswith("{") or line.startswith("["):
            try:
                return json.loads(line)
            except ValueError:
                continue
    return None
