"""Runs the UNMODIFIED loky executor code (ProcessPoolExecutor, _ExecutorManagerThread, _process_worker,
Queue._feed, _SafeQueue, reusable executor, synchronize.*) on the simulated primitives of kernel.py.
Only module globals that name OS primitives are substituted; no loky source line is changed."""
import gc
import os
import struct
import sys
import types
import weakref
import threading as real_threading

HERE = os.path.dirname(os.path.abspath(__file__))
sys.path.insert(0, HERE)
import kernel as K  # noqa: E402

REPO = os.environ.get("VERIF_REPO", "/repo")
if sys.path[0] != REPO and REPO not in sys.path[:2]:
    sys.path.insert(0, REPO)

import multiprocessing as real_mp  # noqa: E402
import multiprocessing.queues as mpq  # noqa: E402
import multiprocessing.context as mpctx  # noqa: E402
import loky  # noqa: E402,F401
import loky.process_executor as pe  # noqa: E402
import loky.reusable_executor as re_  # noqa: E402
import loky.backend.queues as lq  # noqa: E402
import loky.backend.synchronize as lsync  # noqa: E402
import loky.backend.reduction as lred  # noqa: E402

KER = None          # the kernel of the scenario being run


def k():
    return KER


# ---------------------------------------------------------------------- pipes picklable by id
_cores = {}
_orig_pipe = K.sim_pipe


def sim_pipe(duplex=False):
    r, w = _orig_pipe(duplex)
    _cores[r.core.id] = r.core
    return r, w


def _rebuild_conn(core_id, r, w):
    return K.SimConnection(_cores[core_id], r, w)


K.SimConnection.__reduce__ = lambda self: (_rebuild_conn, (self.core.id, self.readable, self.writable))


# ---------------------------------------------------------------------- threading substitutes
class SimThread:
    """threading.Thread replacement for threads created by loky (feeder)"""
    def __init__(self, group=None, target=None, name=None, args=(), kwargs=None, daemon=None):
        self._target, self._args, self._kwargs = target, args, kwargs or {}
        self.name = name or "Thread"
        self.daemon = daemon
        self._actor = None

    def start(self):
        role = "feeder" if "Feeder" in self.name else "thread"
        self._actor = k().spawn(f"{self.name}@{k().cur_proc().pid}", lambda: self._target(*self._args, **self._kwargs),
                                role=role)
        k().park("thread.start")

    def is_alive(self):
        return self._actor is not None and self._actor.alive()

    def join(self, timeout=None):
        a = self._actor
        if a is None:
            return
        k().park("thread.join", enabled=lambda: not a.alive(), can_timeout=timeout is not None)

    @property
    def ident(self):
        return self._actor.id if self._actor else None


def _mgr_start(self):
    self._sim_actor = k().spawn(f"manager@{k().cur_proc().pid}", self.run, role="manager")
    self._sim_actor.pseudo_held = ("TMgr",)
    k().park("thread.start")


def _mgr_join(self, timeout=None):
    a = getattr(self, "_sim_actor", None)
    if a is None:
        return
    if timeout is None:
        k().note_wait("TMgr")
    k().park("thread.join", enabled=lambda: not a.alive(), can_timeout=timeout is not None)


def _mgr_is_alive(self):
    a = getattr(self, "_sim_actor", None)
    return a is not None and a.alive()


sim_threading_q = types.SimpleNamespace(
    Thread=SimThread, Condition=K.SimCondition, Lock=K.SimLock, RLock=K.SimRLock,
    get_ident=real_threading.get_ident, current_thread=real_threading.current_thread)

sim_threading_pe = types.SimpleNamespace(
    Thread=real_threading.Thread, Lock=K.SimLock, RLock=K.SimRLock, Condition=K.SimCondition,
    _register_atexit=lambda f: None, get_ident=real_threading.get_ident,
    current_thread=real_threading.current_thread)


def sim_sleep(t):
    if k().park("sleep", enabled=lambda: False, can_timeout=True) == "timeout":
        return


def sim_time():
    return k().clock


# ---------------------------------------------------------------------- processes
class SimProcess:
    _count = 0
    fail_next = 0            # number of coming start() calls that fail the way a fork/exec does when the system is out of resources

    def __init__(self, group=None, target=None, name=None, args=(), kwargs=None, env=None, daemon=None,
                 init_main_module=False):
        SimProcess._count += 1
        self._target, self._args, self._kwargs = target, tuple(args), dict(kwargs or {})
        self.name = name or f"LokyProcess-{SimProcess._count}"
        self.env = env
        self._st = None
        self.pid = None
        self.sentinel = None
        self.daemon = daemon

    def start(self):
        if SimProcess.fail_next > 0 and getattr(k().cur_actor(), "role", "") == "user":
            # only in a user thread (inside submit()): the property's fault model does not include spawn failures of the manager thread
            SimProcess.fail_next -= 1
            k().park("proc.start-fails")
            raise OSError(11, "Resource temporarily unavailable")
        st = k().new_process(self.name)
        self._st = st
        self.pid = st.pid
        self.sentinel = K.SimSentinel(st)
        # the child receives a pickled copy of (target, args), exactly like a loky child
        mpctx.set_spawning_popen(self)
        try:
            payload = lred.dumps((self._target, self._args, self._kwargs))
        finally:
            mpctx.set_spawning_popen(None)
        kern = k()

        def main():
            import pickle
            target, args, kwargs = pickle.loads(payload)
            kern.trace("worker-start", st.pid)
            target(*args, **kwargs)
        kern.spawn(f"w{st.pid}", main, proc=st, role="worker")
        kern.trace("spawn", st.pid)
        kern.park("proc.start")

    # duck-typing of what assert_spawning / DupFd would look at is not needed: SimConnection pickles by id

    def is_alive(self):
        if self._st is None:
            return False
        k().park("proc.is_alive")
        return self._st.alive

    def join(self, timeout=None):
        st = self._st
        if timeout is None:
            k().note_wait("PWorker")
        k().park("proc.join", enabled=lambda: not st.alive, can_timeout=timeout is not None)

    @property
    def exitcode(self):
        return None if self._st is None or self._st.alive else self._st.exitcode

    def kill(self):
        self._st.kill()

    terminate = kill


def sim_kill_process_tree(process, use_psutil=True):
    k().park("kill_tree")
    st = process._st

    def rec(s):
        for c in s.children:
            rec(c)
        s.kill()
    rec(st)
    process.join()


class SimContext:
    _name = "loky"

    def get_start_method(self):
        return "loky"

    def get_context(self, method=None):
        return self

    def Process(self, *a, **kw):
        return SimProcess(*a, **kw)

    def Lock(self):
        return lsync.Lock()

    def RLock(self):
        return lsync.RLock()

    def Semaphore(self, value=1):
        return lsync.Semaphore(value)

    def BoundedSemaphore(self, value):
        return lsync.BoundedSemaphore(value)

    def Condition(self, lock=None):
        return lsync.Condition(lock)

    def Event(self):
        return lsync.Event()

    def Pipe(self, duplex=False):
        return sim_pipe(duplex)

    def __eq__(self, o):
        return isinstance(o, SimContext)

    def __hash__(self):
        return 7


# ---------------------------------------------------------------------- per-process module globals
BANKED = ("_CURRENT_DEPTH", "_global_shutdown", "_threads_wakeups", "_global_shutdown_lock",
          "process_pool_executor_at_exit")


_gsl_names = __import__("itertools").count(1)


def fresh_bank():
    return {"_CURRENT_DEPTH": 0, "_global_shutdown": False, "_threads_wakeups": weakref.WeakKeyDictionary(),
            "_global_shutdown_lock": K.SimLock(name=f"/global-shutdown-{next(_gsl_names)}"), "process_pool_executor_at_exit": None}


def switch_hook(old, new):
    if old is new:
        return
    if old is not None:
        old.bank = {n: getattr(pe, n) for n in BANKED}
    if not new.bank:
        new.bank = fresh_bank()
    for n in BANKED:
        setattr(pe, n, new.bank[n])


def sim_getpid():
    return k().cur_proc().pid


# ---------------------------------------------------------------------- traced shared containers
# In CPython a thread switch can happen between any two bytecodes; the in-process structures shared by
# user threads, the manager thread and the feeder thread are therefore scheduling points too.
class TracedDict(dict):
    _nm = "dict"

    def _p(self, op):
        kk = k()
        if kk is not None and kk.cur_actor() is not None:
            kk.park(f"shared.{self._nm}.{op}")

    def __getitem__(self, key):
        self._p("get")
        return dict.__getitem__(self, key)

    def __setitem__(self, key, v):
        self._p("set")
        dict.__setitem__(self, key, v)

    def __delitem__(self, key):
        self._p("del")
        dict.__delitem__(self, key)

    def pop(self, *a):
        self._p("pop")
        return dict.pop(self, *a)

    def popitem(self):
        self._p("popitem")
        return dict.popitem(self)

    def clear(self):
        self._p("clear")
        dict.clear(self)

    def values(self):
        self._p("values")
        return dict.values(self)

    def items(self):
        self._p("items")
        return dict.items(self)

    def __len__(self):
        self._p("len")
        return dict.__len__(self)

    def __bool__(self):
        self._p("bool")
        return dict.__len__(self) > 0


class TracedList(list):
    _nm = "list"

    def _p(self, op):
        kk = k()
        if kk is not None and kk.cur_actor() is not None:
            kk.park(f"shared.{self._nm}.{op}")

    def __iadd__(self, other):
        self._p("iadd")
        list.extend(self, other)
        return self

    def remove(self, x):
        self._p("remove")
        list.remove(self, x)

    def __len__(self):
        self._p("len")
        return list.__len__(self)


class PendingDict(TracedDict):
    _nm = "pending"


class ProcessesDict(TracedDict):
    _nm = "processes"


class RunningList(TracedList):
    _nm = "running"


_orig_ppe_init = pe.ProcessPoolExecutor.__init__


def _traced_init(self, *a, **kw):
    _orig_ppe_init(self, *a, **kw)
    pend, run, procs = PendingDict(), RunningList(), ProcessesDict()
    self._pending_work_items = pend
    self._running_work_items = run
    self._processes = procs
    self._call_queue.pending_work_items = pend
    self._call_queue.running_work_items = run


# ---------------------------------------------------------------------- message tags (for trace validation)
_orig_dumps = lq.dumps


def _describe(obj):
    if isinstance(obj, pe._CallItem):
        return ("C", obj.work_id)
    if obj is None:
        return ("S",)
    if isinstance(obj, pe._ResultItem):
        return ("R", obj.work_id)
    if isinstance(obj, int):
        return ("P", obj)
    return ("O",)


def _traced_dumps(obj, reducers=None, protocol=None):
    a = k().cur_actor() if k() is not None else None
    if a is not None:
        a.send_tag = _describe(obj)
    return _orig_dumps(obj, reducers=reducers, protocol=protocol)


# ---------------------------------------------------------------------- installation
_installed = False


# ---------------------------------------------------------------------- what the manager thread really does, in order
# (compared after each run with the operation lists the translator reads off the source: tr/units.py gen_ledger)
OPLOG = []


def _log_calls(cls, name, token, key):
    orig = getattr(cls, name)

    def wrapped(self, *a, **kw):
        OPLOG.append((key(self), token(self, a, kw) if callable(token) else token))
        return orig(self, *a, **kw)
    wrapped.__name__ = name
    setattr(cls, name, wrapped)


def _install_oplog():
    M = pe._ExecutorManagerThread
    fl = lambda self: id(self.executor_flags)  # noqa: E731
    _log_calls(M, "terminate_broken", "enter:terminate_broken", fl)
    _log_calls(M, "flag_executor_shutting_down", lambda self, a, k: "enter:flag_executor_shutting_down:%d" % bool(self.executor_flags.kill_workers), fl)
    _log_calls(M, "join_executor_internals", "enter:join_executor_internals", fl)
    _log_calls(M, "kill_workers", "KillWorkers", fl)
    _log_calls(M, "shutdown_workers", "ShutdownWorkers", fl)
    _log_calls(pe._ExecutorFlags, "flag_as_broken", "FlagBroken", id)
    _log_calls(pe._ExecutorFlags, "flag_as_shutting_down", lambda self, a, k: "FlagShutdown" if not a and not k else "user:shutdown", id)
    _log_calls(lq.Queue, "close", "QClose", id)
    _log_calls(lq.Queue, "join_thread", "QJoinThread", id)
    _log_calls(lq.SimpleQueue, "close", "QClose", id)
    _log_calls(pe._ThreadWakeup, "close", "WakeupClose", id)


def install():
    global _installed
    if _installed:
        return
    _installed = True
    _install_oplog()
    # synchronize: the kernel object and the tracker
    lsync._SemLock = K.SimSemLock
    lsync.sem_unlink = lambda name: None
    lsync.resource_tracker = types.SimpleNamespace(register=lambda *a: None, unregister=lambda *a: None,
                                                   maybe_unlink=lambda *a: None)
    # queues
    mpq.connection = types.SimpleNamespace(Pipe=sim_pipe)
    mpq.threading = sim_threading_q
    mpq.time = types.SimpleNamespace(monotonic=sim_time, time=sim_time)
    lq.threading = sim_threading_q
    lq.dumps = _traced_dumps
    # executor
    pe.mp = types.SimpleNamespace(Pipe=sim_pipe, util=real_mp.util)
    pe.wait = K.sim_wait
    pe.threading = sim_threading_pe
    pe.sleep = sim_sleep
    pe.time = sim_time
    pe.os = types.SimpleNamespace(getpid=sim_getpid, environ=os.environ, sysconf=os.sysconf)
    # the memory-leak protection of the worker loop: "memory" is a per-process number that a task can bump (scenarios.t_leak); the check
    # runs after every task (no delay) and performs no operation on a simulated primitive, so schedules are unchanged by it
    pe._USE_PSUTIL = True
    pe._get_memory_usage = sim_memory_usage
    pe._MEMORY_LEAK_CHECK_DELAY = -1.0
    pe._MAX_MEMORY_LEAK_SIZE = 100
    pe.kill_process_tree = sim_kill_process_tree
    pe._enable_faulthandler_if_needed = lambda: None
    pe._ExecutorManagerThread.start = _mgr_start
    pe._ExecutorManagerThread.join = _mgr_join
    pe._ExecutorManagerThread.is_alive = _mgr_is_alive
    pe.gc = types.SimpleNamespace(collect=lambda *a: 0)
    pe.ProcessPoolExecutor.__init__ = _traced_init
    re_.threading = sim_threading_pe
    re_.time = types.SimpleNamespace(sleep=sim_sleep, time=sim_time)
    re_.cpu_count = lambda: 2


SIM_MEM = {}


def sim_memory_usage(pid, force_gc=False):
    return SIM_MEM.get(pid, 0)


def new_kernel(chooser, max_steps=4000, trace_ops=False):
    """fresh kernel + fresh module-level state for one scenario"""
    global KER
    install()
    gc.disable()
    SIM_MEM.clear()
    # names of actors, processes, pipes and anonymous semaphores restart with every scenario: a recorded schedule (which names
    # the actor chosen at each step) can then be replayed in a fresh process
    import itertools
    K.Actor._ids = itertools.count(1)
    K.SimProcessState._pids = itertools.count(1000)
    K.SimSemLock._names = itertools.count(1)
    K.SimPipeCore._ids = itertools.count(1)
    kern = K.Kernel(chooser, max_steps=max_steps, trace_ops=trace_ops)
    KER = kern
    del OPLOG[:]
    K.SimSemLock.kernel = kern
    K.SimConnection.kernel = kern
    K.SimSemLock.registry.clear()
    _cores.clear()
    kern.switch_hooks.append(switch_hook)
    kern.root.bank = fresh_bank()
    for n in BANKED:
        setattr(pe, n, kern.root.bank[n])
    re_._executor_lock = K.SimRLock(name="/factory-lock")
    re_._executor = None
    re_._executor_kwargs = None
    re_._next_executor_id = 0
    return kern
