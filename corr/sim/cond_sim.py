#!/venv/bin/python
"""cond_sim.py <seed0> <count> <out.json> [<traces.txt>]: the REAL loky.backend.synchronize Condition / Event / Lock /
Semaphore classes on the simulated semaphores, under seeded schedules with time-outs fired by the scheduler."""
import json
import os
import random
import sys
import warnings

HERE = os.path.dirname(os.path.abspath(__file__))
sys.path.insert(0, HERE)
warnings.simplefilter("ignore")
import kernel as K  # noqa: E402
import loky_sim as S  # noqa: E402
import scenarios as Sc  # noqa: E402

lsync = S.lsync


def gen_plan(rng):
    n = rng.randint(2, 5)
    kind = rng.choice(["notify", "notify", "notify_all", "mixed", "event", "locks", "burst", "burst"])
    threads = []
    if kind == "burst":
        # several timed waiters racing one notify_all, then the condition is used again
        k = rng.randint(2, 3)
        threads = [[["wait", True]] + ([["wait", True]] if rng.random() < 0.3 else []) for _ in range(k)]
        threads.append([["notify_all"], rng.choice([["notify"], ["notify_all"]])] + ([["wait", True]] if rng.random() < 0.5 else []))
        if rng.random() < 0.5:
            threads.append([["wait", rng.random() < 0.7]])
        return {"kind": kind, "threads": threads, "rlock": False}
    for i in range(n):
        ops = []
        for _ in range(rng.randint(1, 3)):
            u = rng.random()
            if kind == "event":
                ops.append(rng.choice([["ewait", True], ["ewait", False], ["eset"], ["eclear"], ["eisset"]]))
            elif kind == "locks":
                ops.append(rng.choice([["lock"], ["rlock"], ["sem"], ["bsem_over"]]))
            elif u < 0.55:
                ops.append(["wait", rng.random() < 0.5])
            elif kind == "notify" or (kind == "mixed" and u < 0.8):
                ops.append(["notify"])
            else:
                ops.append(["notify_all"])
        threads.append(ops)
    return {"kind": kind, "threads": threads, "rlock": rng.random() < 0.3 and kind not in ("event", "locks")}


def run_plan(plan, seed, trace=False):
    chooser = Sc.sticky_chooser(seed, stick=0.7) if seed % 2 else Sc.random_chooser(seed)
    kern = S.new_kernel(chooser, max_steps=3000)
    cond = lsync.Condition(lsync.RLock() if plan["rlock"] else lsync.Lock())
    ev = lsync.Event()
    lk, rlk, sem, bsem = lsync.Lock(), lsync.RLock(), lsync.Semaphore(2), lsync.BoundedSemaphore(2)
    st = {"cs": 0, "cs_max": 0, "in_lock": 0, "in_lock_max": 0, "in_sem": 0, "in_sem_max": 0,
          "waits": [], "notifies": [], "errors": [], "events": []}
    lines = []
    idx_of = {}
    # what the Event's flag is at the instant a thread leaves the Event's critical section for the last time in a call (the `with
    # self._cond:` exit goes through SemLock.__exit__ -> self._semlock.release(), looked up on the instance): the flag can only
    # change under that lock, so this is the state "when the call returns"
    ev_unlocks = {}
    _ev_sl = ev._cond._lock._semlock
    _ev_release = _ev_sl.release

    def _logged_release():
        ev_unlocks[kern.current.name] = ev._flag._semlock.value > 0
        return _ev_release()
    _ev_sl.release = _logged_release

    def body(i, ops):
        for op in ops:
            try:
                if op[0] == "wait":
                    with cond:
                        st["cs"] += 1
                        st["cs_max"] = max(st["cs_max"], st["cs"])
                        rec = {"t": i, "tmo": op[1], "reg": kern.steps, "ret": None, "fired": False}
                        st["waits"].append(rec)
                        st["cs"] -= 1
                        n0 = sum(1 for c in kern.choices if c[0] == "timeout" and c[1] == f"t{i}")
                        r = cond.wait(0.5 if op[1] else None)
                        rec["fired"] = sum(1 for c in kern.choices if c[0] == "timeout" and c[1] == f"t{i}") > n0
                        rec["ret"] = bool(r)
                        rec["end"] = kern.steps
                        if not cond._lock._semlock._is_mine():
                            st["errors"].append("wait returned without the lock")
                elif op[0] in ("notify", "notify_all"):
                    with cond:
                        st["cs"] += 1
                        st["cs_max"] = max(st["cs_max"], st["cs"])
                        kern.park("cs")
                        rec = {"t": i, "all": op[0] == "notify_all", "start": kern.steps, "end": None}
                        st["notifies"].append(rec)
                        st["cs"] -= 1
                        getattr(cond, op[0])()
                        rec["end"] = kern.steps
                elif op[0] == "ewait":
                    r = ev.wait(0.5 if op[1] else None)
                    # True iff the flag is set at return: the flag semaphore is only changed under the condition's lock
                    st["events"].append(("wait", bool(r), op[1]))
                    at_return = ev_unlocks.get(f"t{i}")
                    if at_return is not None and bool(r) != at_return:
                        st["errors"].append(f"Event.wait() returned {bool(r)} although the event was {'set' if at_return else 'clear'} when it returned")
                    if not r and not op[1] and not any(o[0] == "eclear" for t in plan["threads"] for o in t):
                        st["errors"].append("Event.wait() without timeout returned False although nobody clears the event")
                elif op[0] == "eset":
                    ev.set()
                elif op[0] == "eclear":
                    ev.clear()
                elif op[0] == "eisset":
                    r = ev.is_set()
                    at_return = ev_unlocks.get(f"t{i}")
                    if at_return is not None and bool(r) != at_return:
                        st["errors"].append(f"Event.is_set() returned {bool(r)} although the event was {'set' if at_return else 'clear'}")
                elif op[0] == "lock":
                    with lk:
                        st["in_lock"] += 1
                        st["in_lock_max"] = max(st["in_lock_max"], st["in_lock"])
                        kern.park("cs")
                        st["in_lock"] -= 1
                elif op[0] == "rlock":
                    with rlk:
                        with rlk:
                            st["in_lock"] += 0
                            kern.park("cs")
                elif op[0] == "sem":
                    with sem:
                        st["in_sem"] += 1
                        st["in_sem_max"] = max(st["in_sem_max"], st["in_sem"])
                        kern.park("cs")
                        st["in_sem"] -= 1
                elif op[0] == "bsem_over":
                    try:
                        bsem.release()
                        st["errors"].append("BoundedSemaphore accepted an over-release")
                    except ValueError:
                        pass
            except K.Killed:
                raise
            except AssertionError as e:
                st["errors"].append("AssertionError: " + str(e)[:60])
            except BaseException as e:  # noqa
                st["errors"].append(type(e).__name__ + ": " + str(e)[:60])

    actors = []
    for i, ops in enumerate(plan["threads"]):
        a = kern.spawn(f"t{i}", lambda i=i, ops=ops: body(i, ops), proc=kern.root, role="user")
        idx_of[a.id] = i
        actors.append(a)
    prev = [None]

    def hook(k):
        sl = cond._lock._semlock
        holder = "-" if sl.value > 0 else str(idx_of.get(sl.owner, 99))
        o = f"{holder} | {cond._sleeping_count._semlock.value} | {cond._woken_count._semlock.value} | {cond._wait_semaphore._semlock.value}"
        if prev[0] is None:
            prev[0] = o
            if o == "- | 0 | 0 | 0":
                return
        if o != prev[0]:
            prev[0] = o
            a = k.current
            lines.append(f"T{idx_of.get(a.id, 99)} | {o}")
    prev[0] = "- | 0 | 0 | 0"
    if trace and not plan["rlock"] and plan["kind"] not in ("event", "locks"):
        kern.step_hooks.append(hook)
    status = kern.run()
    # ---------------- monitors
    anomalies = []
    for e in st["errors"]:
        anomalies.append({"kind": "error", "sig": e.split(":")[0] + (":" + e.split(":")[1][:30] if "Assert" in e else "")})
    for name, rep in kern.crashes:
        anomalies.append({"kind": "crash", "sig": rep[:60]})
    if st["cs_max"] > 1 or st["in_lock_max"] > 1:
        anomalies.append({"kind": "mutex", "sig": "two threads inside a Lock-protected section"})
    if st["in_sem_max"] > 2:
        anomalies.append({"kind": "semaphore", "sig": f"Semaphore(2) admitted {st['in_sem_max']} holders"})
    for w in st["waits"]:
        if w["ret"] is False and not w["fired"]:
            anomalies.append({"kind": "false-without-timeout", "sig": "wait() returned False although its time-out did not fire"})
    n_true = sum(1 for w in st["waits"] if w["ret"] is True)
    posted_calls = sum(1 for n in st["notifies"] if n["start"] is not None)
    if n_true and not st["notifies"]:
        anomalies.append({"kind": "spurious-wakeup", "sig": "wait() returned True although nobody notified"})
    leftover = cond._wait_semaphore._semlock.value
    if status == "quiescent" and leftover and not any(w["ret"] is None for w in st["waits"]) \
            and all(n["end"] is not None for n in st["notifies"]):
        anomalies.append({"kind": "stale-token", "sig": f"{leftover} wake-up token(s) left in _wait_semaphore after every call returned"})
    blocked = [w for w in st["waits"] if w["ret"] is None]
    for w in blocked:
        for n in st["notifies"]:
            if n["all"] and n["end"] is not None and n["start"] > w["reg"]:
                anomalies.append({"kind": "notify_all-missed", "sig": "a waiter registered before notify_all() started is still asleep after it returned"})
                break
    if plan["kind"] == "notify" and status == "quiescent":
        trues = sum(1 for w in st["waits"] if w["ret"] is True)
        eff = 0
        for n in st["notifies"]:
            if n["end"] is None:
                continue
            if any((not w["tmo"]) and w["reg"] < n["start"] and (w["ret"] is None or w.get("end", 0) > n["start"]) for w in st["waits"]):
                eff += 1
        untimed_blocked = [w for w in blocked if not w["tmo"]]
        if untimed_blocked and trues < eff:
            anomalies.append({"kind": "lost-notify",
                              "sig": "notify() returned while an untimed waiter registered before it still sleeps and nobody was woken in its place"})
    unfinished = [a.name for a in actors if not a.done]
    rec = {"seed": seed, "plan": plan, "status": status, "steps": kern.steps, "anomalies": anomalies,
           "waits": len(st["waits"]), "notifies": len(st["notifies"]), "unfinished": len(unfinished)}
    if anomalies:
        rec["choices"] = [list(c) for c in kern.choices]
    return rec, lines


def main():
    seed0, n, outp = int(sys.argv[1]), int(sys.argv[2]), sys.argv[3]
    trp = sys.argv[4] if len(sys.argv) > 4 else None
    runs = []
    tf = open(trp, "w") if trp else None
    for seed in range(seed0, seed0 + n):
        plan = gen_plan(random.Random(f"cond-{seed}"))
        try:
            rec, lines = run_plan(plan, seed, trace=tf is not None)
        except BaseException as e:  # noqa
            runs.append({"seed": seed, "plan": plan, "status": "harness-error", "error": repr(e), "anomalies": []})
            continue
        runs.append(rec)
        if tf and lines:
            tf.write(f"TRACE cond-{seed}\n" + "\n".join(lines) + "\nEND\n")
    if tf:
        tf.close()
    json.dump({"runs": runs}, open(outp, "w"))
    sys.stdout.flush()
    os._exit(0)


if __name__ == "__main__":
    main()
