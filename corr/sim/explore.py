"""Plans (JSON-able scenario descriptions), their interpreter, the property monitors and the
anomaly signatures used to match known findings."""
import os
import random
import re
import sys
import traceback

HERE = os.path.dirname(os.path.abspath(__file__))
sys.path.insert(0, HERE)
import kernel as K  # noqa: E402
import loky_sim as S  # noqa: E402
import scenarios as Sc  # noqa: E402

pe = S.pe


# ---------------------------------------------------------------------- plan generation
def gen_plan(rng, family):
    """family selects the mix; every plan is a dict that json can dump"""
    plan = {"family": family, "workers": rng.choice([1, 1, 2, 2, 3]), "timeout": None, "reusable": False,
            "kill_budget": 0, "threads": [[]], "final": "await+shutdown"}
    kinds_ok = ["value", "value", "long", "raise", "sysexit", "badarg", "hugearg", "bigarg", "badresult"]
    n = rng.randint(1, 6)
    main = plan["threads"][0]
    if family == "plain":                       # C03 C04 C08: no faults from the environment
        for _ in range(n):
            main.append(["submit", rng.choice(kinds_ok)])
        if rng.random() < 0.4:
            plan["threads"].append([["submit", rng.choice(kinds_ok)] for _ in range(rng.randint(1, 3))])
        if rng.random() < 0.4:
            main.insert(rng.randint(1, len(main)), ["cancel", rng.randrange(n)])
        if rng.random() < 0.3:
            main.append(["await_all"])
            main.append(["submit", "value"])
    elif family == "kill":                      # C02 (+C01)
        plan["kill_budget"] = rng.choice([1, 1, 2])
        for _ in range(n):
            main.append(["submit", rng.choice(["value", "long", "long", "raise", "badarg"])])
        if rng.random() < 0.3:
            main.append(["submit", rng.choice(Sc.FATAL_KINDS)])
        plan["final"] = "await+submit+shutdown"
    elif family == "fatal":                     # task-induced deaths / unpicklable both ways
        for _ in range(n):
            main.append(["submit", rng.choice(["value", "long", "raise"] + Sc.FATAL_KINDS)])
        plan["final"] = "await+submit+shutdown"
    elif family == "timeout":                   # C07
        plan["timeout"] = 0.05
        for _ in range(n):
            main.append(["submit", rng.choice(["value", "long", "raise", "badarg"])])
            if rng.random() < 0.3:
                main.append(["await_all"])
                if rng.random() < 0.5:
                    main.append(["pause"])      # idle workers may time out before the next submit
        if rng.random() < 0.3:
            plan["threads"].append([["submit", "value"] for _ in range(rng.randint(1, 2))])
        if rng.random() < 0.25:
            # the pool goes idle, its workers may time out, and a new job arrives while the manager is dealing with their exits
            plan["workers"] = rng.choice([1, 1, 2])
            plan["threads"] = [[["submit", "value"], ["await_all"], ["pause"], ["submit", "value"]]
                               + ([["await_all"], ["pause"], ["submit", "value"]] if rng.random() < 0.4 else [])]
    elif family == "shutdown":                  # C05: graceful shutdown at any point
        plan["timeout"] = rng.choice([None, None, 0.05])
        for _ in range(n):
            main.append(["submit", rng.choice(["value", "long", "raise", "badarg"])])
        how = rng.choice(["wait", "nowait", "del", "exit", "ctx", "nowait+wait", "nowait+ctx"])
        at = rng.randint(1, len(main))
        if "+" in how:                          # a non-waited shutdown followed, later, by a waited one on the same executor
            first, second = how.split("+")
            main.insert(at, ["shutdown", first])
            main.insert(rng.randint(at + 1, len(main)), ["shutdown", second])
        else:
            main.insert(at, ["shutdown", how])
        plan["final"] = "await"
    elif family == "latekill":                  # C05/C01: a worker dies during the shutdown phase
        plan["kill_budget"] = 1
        plan["kill_after_shutdown"] = True
        plan["workers"] = rng.choice([2, 2, 3])
        for _ in range(n):
            main.append(["submit", rng.choice(["value", "long", "raise"])])
        main.append(["shutdown", rng.choice(["wait", "wait", "ctx", "exit"])])
        plan["final"] = "await"
    elif family == "full":                      # C04: more unsendable tasks than call-queue slots
        plan["workers"] = 1
        for _ in range(rng.randint(4, 9)):
            main.append(["submit", rng.choice(["badarg", "badarg", "hugearg", "value", "raise"])])
        main.append(["await_all"])
        main.append(["submit", "value"])
    elif family == "killshutdown":              # C06
        plan["timeout"] = rng.choice([None, None, 0.05])
        for _ in range(n):
            main.append(["submit", rng.choice(["value", "forever", "forever", "long"])])
        if rng.random() < 0.35:
            # a forced shutdown of a pool that is already shutting down gracefully must still be forced
            main.append(["shutdown", "nowait"])
        main.append(["shutdown", "kill"])
        plan["final"] = "await"
    elif family == "resize":                    # C10 C09
        plan["reusable"] = True
        plan["timeout"] = rng.choice([10, 10, 0.05])
        plan["kill_budget"] = rng.choice([0, 0, 0, 1])
        for _ in range(rng.randint(0, 3)):
            main.append(["submit", rng.choice(["value", "long"])])
        main.append(["resize", rng.choice([1, 2, 3, 4])])
        for _ in range(rng.randint(0, 2)):
            main.append(["submit", "value"])
        if rng.random() < 0.4:
            main.append(["resize", rng.choice([1, 2, 3])])
        if rng.random() < 0.3:
            plan["threads"].append([["resize", rng.choice([1, 2, 3])], ["submit", "value"]])
        if rng.random() < 0.35:
            # quiet resizes: no idle time-out (workers wait without a time-out, so none can expire), no kill, one thread, the
            # pool started first; after EACH call the size and the identity of the survivors are compared with what
            # Proofs/ResizeThm.resize_returns_as_asked says
            plan["workers"] = rng.choice([1, 2, 3, 4])
            plan["timeout"] = None
            plan["kill_budget"] = 0
            seq = [["submit", "value"]] * rng.randint(1, 2)
            for _ in range(rng.randint(1, 3)):
                seq.append(["resize", rng.choice([1, 2, 3, 4, 5])])
                if rng.random() < 0.5:
                    seq.append(["submit", rng.choice(["value", "long"])])
            plan["threads"] = [seq]
        elif rng.random() < 0.12:
            # a shrink by more workers than the call queue has slots (2 * cpu_count() + 1 = 5 in the simulation)
            plan["workers"] = rng.choice([7, 8])
            plan["timeout"] = None          # no idle time-out: every worker is still there when the resize looks
            plan["kill_budget"] = 0
            plan["threads"] = [[["submit", "value"]] * rng.randint(0, 2) + [["resize", 1], ["submit", "value"]]]
    elif family == "reuse":                     # C09: histories of factory calls, breakages, shutdowns, from 1..3 threads
        plan["reusable"] = True
        plan["timeout"] = 10
        plan["kill_budget"] = rng.choice([0, 0, 0, 1])

        nthreads = rng.choice([1, 1, 1, 2, 3])
        if nthreads > 1:
            # racing callers: same kwargs, no forced replacement (a replacement legitimately shuts the instance down under the
            # feet of the other callers), no kills
            plan["kill_budget"] = 0

        def get():
            if nthreads > 1:
                return ["get", rng.choice([1, 2, 2, 3, None]), 10, rng.choice(["auto", "auto", True]), False]
            return ["get", rng.choice([1, 2, 2, 3, None]), rng.choice([10, 10, 20]), rng.choice(["auto", "auto", True, False]),
                    rng.choice([False, False, True])]
        for _ in range(rng.randint(2, 5)):
            main.append(get())
            r_ = rng.random() if nthreads == 1 else rng.random() * 0.5
            if r_ < 0.5:
                main.append(["submit", rng.choice(["value", "value", "long", "raise"])])
            elif r_ < 0.65:
                main.append(["break"])
            elif r_ < 0.8:
                main.append(["shutdown_cur", rng.choice([True, False])])
            elif r_ < 0.9:
                main.append(["await_all"])
        for _ in range(nthreads - 1):
            th = []
            for _ in range(rng.randint(1, 3)):
                th.append(get())
                if rng.random() < 0.6:
                    th.append(["submit", "value"])
            plan["threads"].append(th)
        plan["final"] = "await"
    elif family == "killbadarg":                # C06: a forced shutdown while the feeder thread is failing unsendable tasks of the same table
        plan["workers"] = rng.choice([1, 1, 2])
        for _ in range(rng.randint(3, 7)):
            # some futures carry a done-callback (it tries to submit follow-up work): run by the manager inside its failing loop, it
            # lets the feeder thread in between two items
            main.append([rng.choice(["submit", "submit", "submit_cb"]), rng.choice(["forever", "long", "badarg", "badarg", "bigarg", "value"])])
        main.append(["shutdown", "kill"])
        plan["final"] = "await"
    elif family == "cancelfail":                # C01 C02 C06: futures cancelled while they wait in the table, then the table is failed (H14)
        plan["workers"] = rng.choice([1, 1, 2])
        k = rng.randint(4, 8)                   # more jobs than workers + call-queue slots: the last ones wait in the table
        for _ in range(k):
            main.append(["submit", rng.choice(["long", "long", "value"])])
        for _ in range(rng.choice([1, 1, 2])):
            main.append(["cancel", k - 1 - rng.randrange(3)])
        mode = rng.choice(["fatal", "kill", "forced", "forced"])
        if mode == "fatal":
            main.insert(rng.randrange(k), ["submit", rng.choice(Sc.FATAL_KINDS)])
            plan["final"] = "await+submit+shutdown"
        elif mode == "kill":
            plan["kill_budget"] = 1
            plan["final"] = "await+submit+shutdown"
        else:
            main.append(["shutdown", "kill"])
            plan["final"] = "await"
    elif family == "cancelshutdown":            # C01 / C05: futures cancelled while they wait (table or id queue), then a graceful WAITED shutdown (H11)
        plan["workers"] = rng.choice([1, 1, 2])
        k = rng.randint(1, 7)
        for _ in range(k):
            main.append(["submit", rng.choice(["long", "value", "value", "hugearg", "sysexit"])])
        for _ in range(rng.choice([1, 1, 2])):
            main.append(["cancel", k - 1 - rng.randrange(min(3, k))])
        plan["final"] = rng.choice(["shutdown", "await+shutdown", "shutdown"])
    elif family == "mix":                       # C01: everything at once -- time-outs, kills, fatal tasks, cancels, threads, resizes
        plan["workers"] = rng.choice([1, 1, 2, 3])
        plan["timeout"] = rng.choice([None, 0.05, 0.05])
        plan["reusable"] = rng.random() < 0.3
        if plan["reusable"] and plan["timeout"] is None:
            plan["timeout"] = 10
        plan["kill_budget"] = rng.choice([0, 0, 1])
        kinds = ["value", "value", "value", "long", "raise", "badarg", "bigarg", "badresult", "sysexit"] + Sc.FATAL_KINDS

        def ops(k, main_thread):
            out = []
            for _ in range(k):
                u = rng.random()
                if u < 0.6:
                    out.append(["submit", rng.choice(kinds)])
                elif u < 0.7 and main_thread:
                    out.append(["await_all"])
                elif u < 0.82:
                    out.append(["pause"])
                elif u < 0.9:
                    out.append(["cancel", rng.randrange(6)])
                elif plan["reusable"]:
                    out.append(["resize", rng.choice([1, 2, 3])])
                else:
                    out.append(["submit", "value"])
            return out
        main.extend(ops(rng.randint(2, 7), True))
        if rng.random() < 0.4:
            plan["threads"].append(ops(rng.randint(1, 3), False))
        plan["final"] = rng.choice(["await+shutdown", "await+submit+shutdown"])
    elif family == "idlefatal":                 # C02: the pool goes idle (its workers time out), then a task kills the worker re-started for it
        plan["timeout"] = 0.05
        plan["workers"] = rng.choice([1, 1, 2])
        for _ in range(rng.randint(1, 2)):
            main.append(["submit", "value"])
        main.append(["await_all"])
        main.append(["pause"])                  # every idle worker may time out here
        main.append(["submit", rng.choice(Sc.FATAL_KINDS + ["die", "die"])])
        if rng.random() < 0.4:
            main.append(["submit", "value"])
        plan["final"] = "await+submit+shutdown"
    elif family == "busyfatal":                 # C02: part of the pool idles out while a task still runs; a submit re-starts a worker, which then dies
        plan["timeout"] = 0.05
        plan["workers"] = rng.choice([2, 2, 3])
        main.append(["submit", "long"])         # keeps one worker busy: its result can reach the manager together with the submit's wake-up
        if rng.random() < 0.5:
            main.append(["submit", "long"])
        main.append(["pause"])                  # the idle workers time out
        main.append(["submit", "die"])          # re-starts a worker (wake-up) -- which dies running this task
        plan["final"] = "await+submit+shutdown"
    elif family == "idleshrink":                # C10: some workers idle-time-out BEFORE a shrinking resize; none may leave after it
        plan["reusable"] = True
        plan["timeout"] = 10
        plan["workers"] = rng.choice([3, 4, 4, 5])
        plan["freeze_worker_timeouts_at_resize"] = True
        for _ in range(rng.randint(1, 3)):
            main.append(["submit", rng.choice(["value", "value", "long"])])
        main.append(["await_all"])
        main.append(["pause"])                  # idle workers may time out here
        if rng.random() < 0.5:
            main.append(["submit", "value"])
            main.append(["await_all"])
        main.append(["resize", rng.randint(1, plan["workers"] - 1)])
        main.append(["pause"])                  # everything that can still happen happens
        plan["final"] = "await"
    elif family == "shrinkkill":                # C10 "terminates ... also when workers die during it": idle workers left BEFORE a shrinking
        plan["reusable"] = True                 # resize, so the shrink has to spawn; a worker spawned BY the resize is killed
        plan["timeout"] = 10
        plan["workers"] = rng.choice([2, 3, 4])
        plan["freeze_worker_timeouts_at_resize"] = True
        plan["kill_budget"] = 1
        plan["kill_only_workers_spawned_by_resize"] = True
        for _ in range(rng.randint(1, 2)):
            main.append(["submit", "value"])
        main.append(["await_all"])
        main.append(["pause"])                  # idle workers time out here
        main.append(["pause"])
        main.append(["resize", rng.randint(1, plan["workers"] - 1)])
        main.append(["pause"])
        plan["final"] = "await"
    elif family == "race":                      # C09: callers racing with identical arguments, the harness takes no lock
        plan["reusable"] = True
        plan["timeout"] = 10
        plan["prelude"] = [["get", rng.choice([1, 2, 3]), 10, "auto", False]]
        if rng.random() < 0.6:
            plan["prelude"].append(["submit", rng.choice(["value", "long", "long"])])
        args = ["rget", rng.choice([1, 2, 3]), rng.choice([10, 20, 20])]
        for _ in range(rng.randint(1, 2)):
            main.append(list(args))
        for _ in range(rng.choice([1, 2, 2, 3])):
            plan["threads"].append([list(args) for _ in range(rng.randint(1, 2))])
        plan["final"] = "await"
    elif family == "callback":                  # C04: done-callbacks that use the executor, run by whichever thread completes the future
        kinds_cb = ["value", "raise", "sysexit", "badarg", "badarg", "hugearg", "bigarg", "badresult"]
        for _ in range(n):
            main.append([rng.choice(["submit_cb", "submit_cb", "submit"]), rng.choice(kinds_cb)])
        if rng.random() < 0.3:
            plan["threads"].append([[rng.choice(["submit_cb", "submit"]), rng.choice(kinds_cb)] for _ in range(rng.randint(1, 2))])
        if rng.random() < 0.3:
            main.insert(rng.randint(1, len(main)), ["cancel", rng.randrange(n)])
        plan["final"] = "await+submit+shutdown"
    elif family == "cbreuse":                   # C01 C10: done-callbacks submitting to the REUSABLE executor while another thread resizes / replaces it (H15)
        plan["reusable"] = True
        plan["timeout"] = 10
        plan["workers"] = rng.choice([2, 3])
        for _ in range(rng.randint(1, 3)):
            main.append([rng.choice(["submit_cb", "submit_cb", "submit"]), rng.choice(["value", "long"])])
        other = []
        for _ in range(rng.randint(1, 2)):
            other.append(rng.choice([["resize", 1], ["resize", rng.choice([1, 2, 3, 4])], ["get", plan["workers"], 20, "auto", False]]))
        plan["threads"].append(other)
        plan["final"] = "await"
    elif family == "growshrink":                # C10: a pool created small, grown, then shrunk while its idle workers may be leaving
        plan["reusable"] = True
        plan["workers"] = 1
        plan["timeout"] = rng.choice([0.05, 0.05, 10])
        plan["kill_budget"] = 0
        big = rng.choice([6, 7, 8])
        seq = [["submit", "value"], ["resize", big]]
        for _ in range(rng.randint(1, 3)):
            seq.append(["submit", rng.choice(["value", "value", "long"])])
        seq.append(["await_all"])
        if rng.random() < 0.6:
            seq.append(["pause"])               # the idle workers may all time out here
        seq.append(["resize", rng.choice([1, 1, 2])])
        seq.append(["submit", "value"])
        plan["threads"] = [seq]
        plan["final"] = "await+shutdown"
    elif family == "spawnfail":                 # C03 C01: a worker cannot be started once (EAGAIN) in the middle of submit(); the pool is used afterwards
        plan["workers"] = rng.choice([1, 1, 2])
        plan["timeout"] = 0.05
        plan["reusable"] = rng.random() < 0.4        # the reusable executor's own submit() sits on top of the same path
        seq = [["submit", "value"], ["await_all"], ["pause"], ["failspawn"], ["submit", rng.choice(["value", "long"])]]
        for _ in range(rng.randint(1, 3)):
            seq.append(["submit", rng.choice(["value", "long", "value"])])
            if rng.random() < 0.3:
                seq.append(["pause"])
        plan["threads"] = [seq]
        plan["final"] = "await+submit+shutdown"
    elif family == "excs":                      # C04: exceptions that are not type(e)(*e.args): several constructor arguments, state outside args
        for _ in range(n + 1):
            main.append(["submit", rng.choice(["raise_json", "raise_stateful", "raise_oserror", "raise", "value", "value", "sysexit", "badarg_badrepr"])])
        if rng.random() < 0.4:
            plan["threads"].append([["submit", rng.choice(["raise_json", "value"])] for _ in range(rng.randint(1, 2))])
        plan["final"] = "await+submit+shutdown"
    elif family == "saturate":                  # C08 delivered
        plan["workers"] = rng.choice([1, 2, 3])
        plan["timeout"] = rng.choice([None, 0.05, 0.05])
        for _ in range(plan["workers"] + rng.randint(0, 3)):
            main.append(["submit", "block"])
            if plan["timeout"] and rng.random() < 0.4:
                main.append(["pause"])
        plan["final"] = "none"
    elif family == "leakexit":                  # C08 delivered / C07-like: a worker leaves an idle or busy executor through the memory-leak protection
        plan["workers"] = rng.choice([1, 2, 2, 3])
        plan["timeout"] = rng.choice([None, None, 0.05])
        plan["reusable"] = rng.random() < 0.3
        for _ in range(plan["workers"] + rng.randint(0, 2)):
            main.append(["submit", "value"])          # warm-up: the reference measurement is taken after a worker's first task
        main.append(["await_all"])
        for _ in range(rng.choice([1, 1, 2])):
            main.append(["submit", "leak"])
            if rng.random() < 0.5:
                main.append(["submit", "value"])
        if rng.random() < 0.7:
            main.append(["await_all"])
        if rng.random() < 0.5:
            main.append(["pause"])
        if rng.random() < 0.65:
            for _ in range(plan["workers"] + rng.randint(0, 2)):
                main.append(["submit", "block"])
            plan["final"] = "none"
        else:
            # no blocking tasks: ordinary work around the leak exits, then the run must end like any other (C05 / C01 monitors)
            for _ in range(rng.randint(1, 4)):
                main.append(["submit", rng.choice(["value", "long", "leak", "raise"])])
            plan["final"] = rng.choice(["await", "await+shutdown", "shutdown"]) if not plan["reusable"] else "await"
    elif family == "satreuse":                  # C08 delivered, reusable executor: created small, resized up, then saturated (the call queue is created once)
        plan["reusable"] = True
        plan["workers"] = rng.choice([1, 1, 2])
        plan["timeout"] = None
        big = rng.choice([4, 5, 6, 7])
        main.append(["submit", "value"])
        main.append(["await_all"])
        main.append(["resize", big])
        for _ in range(big + rng.randint(0, 2)):
            main.append(["submit", "block"])
        plan["saturate_to"] = big
        plan["final"] = "none"
    else:
        raise ValueError(family)
    return plan


# ---------------------------------------------------------------------- blocking task kinds
def t_forever(tid):
    Sc._log(tid)
    S.k().park("task.forever", enabled=lambda: False)


RUNNING_NOW = set()


def t_block(tid):
    Sc._log(tid)
    RUNNING_NOW.add(tid)
    S.k().park("task.block", enabled=lambda: False)


def submit(env, ex, kind):
    if kind == "forever":
        tid = env._tid
        env._tid += 1
        try:
            f = ex.submit(t_forever, tid)
        except BaseException as e:  # noqa
            env.notes.setdefault("submit_errors", []).append((tid, kind, type(e).__name__))
            return None
        env.futs[tid] = (kind, f)
        return f
    if kind == "block":
        tid = env._tid
        env._tid += 1
        f = ex.submit(t_block, tid)
        env.futs[tid] = (kind, f)
        return f
    return env.submit(ex, kind)


# ---------------------------------------------------------------------- plan interpreter
def make_program(plan):
    def get_ex(env):
        if plan["reusable"]:
            return env.reusable(plan["workers"], timeout=plan["timeout"])
        if "ex" not in env.notes:
            env.notes["ex"] = env.executor(plan["workers"], timeout=plan["timeout"])
        return env.notes["ex"]

    def run_thread(env, actions, tname):
        for act in actions:
            op = act[0]
            try:
                if op == "submit":
                    if env.notes.get("ex_gone"):
                        continue
                    if plan["family"] == "reuse":
                        ex = env.notes.get(("mine", tname))
                        if ex is None:
                            continue
                    elif plan["family"] == "satreuse" and S.re_._executor is not None:
                        ex = S.re_._executor          # the singleton as the last resize left it (get_ex would resize it back)
                    else:
                        ex = get_ex(env)
                    f = submit(env, ex, act[1])
                    env.notes.setdefault("order", []).append((tname, "submit", act[1], f is not None))
                elif op == "submit_cb":
                    ex = get_ex(env)
                    f = submit(env, ex, act[1])
                    if f is not None:
                        def cb(fut, ex=ex):
                            # a typical "submit a fallback when done" callback that then fails: loky runs it in the thread that
                            # completes the future (manager, queue feeder, or the caller of cancel()) and must survive it
                            f2 = submit(env, ex, "value")
                            env.notes.setdefault("callbacks", []).append((getattr(env.kern.current, "role", "?"), f2 is not None))
                            raise RuntimeError("callback failed")
                        f.add_done_callback(cb)
                elif op == "rget":
                    ex = env.reusable(act[1], timeout=act[2])
                    env.notes.setdefault("rgets", []).append((tname, ex.executor_id))
                    env.notes.setdefault("rget_objs", []).append(ex)
                elif op == "cancel":
                    tids = sorted(env.futs)
                    if tids:
                        tid = tids[act[1] % len(tids)]
                        ok = env.futs[tid][1].cancel()
                        if ok:
                            env.notes.setdefault("cancelled", []).append(tid)
                elif op == "failspawn":
                    S.SimProcess.fail_next = 1
                elif op == "pause":
                    # let everything that can happen happen (idle workers may time out meanwhile)
                    env.kern.park("pause", enabled=lambda: False, can_timeout=True)
                elif op == "await_all":
                    env.await_([f for _, f in env.futs.values()])
                elif op == "resize":
                    if plan.get("freeze_worker_timeouts_at_resize"):
                        env.kern.timeout_allowed = lambda a: a.role != "worker"
                        # is the pool at rest?  every live worker waits in call_queue.get and every exit has been reaped
                        cur = S.re_._executor
                        rl = getattr(getattr(getattr(cur, "_call_queue", None), "_rlock", None), "_semlock", None)
                        rname = getattr(rl, "name", "?")
                        idle = True
                        for a in env.kern.actors:
                            if a.role == "worker" and not a.done and a.proc.alive and a.pending is not None:
                                op = str(a.pending[0])
                                if not (op.startswith("pipe.poll") or op == f"sem.acquire {rname}"):
                                    idle = False
                        alive_now = sum(1 for p_ in env.worker_procs() if p_.alive)
                        env.notes["at_rest_before_resize"] = bool(idle and cur is not None and len(dict.copy(cur._processes)) == alive_now)
                    env.notes.setdefault("resizes", []).append(act[1])
                    env.notes["pids_alive_at_resize"] = {p_.pid for p_ in env.worker_procs() if p_.alive}
                    prev = S.re_._executor
                    started = prev is not None and prev._executor_manager_thread is not None
                    pids_before = set(dict.copy(prev._processes)) if prev is not None else set()
                    t_before = sum(1 for c in env.kern.choices if c[0] in ("timeout", "kill") and (len(c) < 3 or c[2] != "sleep"))
                    ex = env.reusable(act[1], timeout=plan["timeout"])
                    t_after = sum(1 for c in env.kern.choices if c[0] in ("timeout", "kill") and (len(c) < 3 or c[2] != "sleep"))
                    env.notes["last_resize"] = (act[1], sorted(dict.copy(ex._processes)), ex._flags.broken is not None,
                                                started and ex is prev, t_after - t_before, sorted(pids_before))
                    env.notes.setdefault("all_resizes", []).append(env.notes["last_resize"])
                elif op == "get":
                    _, mw, tmo, reuse, kill = act
                    re_ = S.re_
                    with re_._executor_lock:
                        prev = re_._executor
                        kw_of = env.notes.setdefault("kw_of", {})
                        rec = {"thread": tname, "args": {"max": mw, "kw": int(tmo), "reuse": reuse, "kill": kill}, "next": re_._next_executor_id,
                               "pre": None if prev is None else {
                                   "eid": prev.executor_id, "max": prev._max_workers, "broken": prev._flags.broken is not None,
                                   "shutdown": bool(prev._flags.shutdown), "kw": kw_of.get(prev.executor_id)},
                               "stored_kw": None if re_._executor_kwargs is None else int(re_._executor_kwargs["timeout"]),
                               "cpu": re_.cpu_count()}
                        prev_mgr = getattr(prev, "_executor_manager_thread", None) if prev is not None else None
                        prev_procs = list(prev._processes.values()) if prev is not None else []
                        env.notes.setdefault("gets", []).append(rec)
                        try:
                            ex = env.reusable(mw, timeout=tmo, reuse=reuse, kill_workers=kill)
                        except ValueError as e:
                            rec["error"] = str(e)[:80]
                            continue
                        env.notes[("mine", tname)] = ex
                        if ex is not prev:
                            kw_of[ex.executor_id] = int(tmo)
                        rec["post"] = {"eid": ex.executor_id, "max": ex._max_workers, "broken": ex._flags.broken is not None,
                                       "shutdown": bool(ex._flags.shutdown), "is_prev": ex is prev, "next": re_._next_executor_id,
                                       "nprocs": len(ex._processes), "started": ex._executor_manager_thread is not None}
                        if ex is not prev and prev is not None:
                            a_ = getattr(prev_mgr, "_sim_actor", None)
                            rec["post"]["prev_mgr_alive"] = bool(a_ is not None and a_.alive())
                            rec["post"]["prev_workers_alive"] = [p.pid for p in prev_procs if p._st is not None and p._st.alive]
                        if prev is not None:
                            # the pool can break at any moment (the manager thread does not take the factory lock): remember
                            # whether the flags the factory read may differ from the ones read just before the call
                            rec["prev_broke_meanwhile"] = (prev._flags.broken is not None) != rec["pre"]["broken"]
                        rec["faults"] = sum(1 for c in env.kern.choices if c[0] in ("timeout", "kill") and (len(c) < 3 or c[2] != "sleep"))
                elif op == "break":
                    ex = S.re_._executor
                    if ex is not None and not ex._flags.shutdown and ex._flags.broken is None:
                        f = submit(env, ex, "sysexit")
                        if f is not None:
                            env.await_([f])
                elif op == "shutdown_cur":
                    ex = S.re_._executor
                    if ex is not None:
                        ex.shutdown(wait=act[1])
                elif op == "shutdown":
                    how = act[1]
                    env.notes["shutdown"] = how
                    ex = get_ex(env)
                    env.notes["flags"] = ex._flags
                    env.notes["procs_at_shutdown"] = list(ex._processes.values())
                    def at_return(ex=ex):
                        # the instant a waited shutdown returns: everything must be over already
                        rec_ = next((x for x in env.all_executors if x["id"] == id(ex)), None)
                        mt = rec_ and rec_.get("mgr_actor")
                        env.notes["at_waited_shutdown_return"] = {
                            "unfinished": sorted(t for t, (_, f) in env.futs.items() if f is not None and not f.done()),
                            "manager_alive": bool(mt is not None and mt.alive()),
                            "workers_alive": sorted(p.pid for p in env.notes.get("procs_at_shutdown", []) if p._st is not None and p._st.alive)}
                    if how == "wait":
                        ex.shutdown(wait=True)
                        at_return()
                    elif how == "nowait":
                        ex.shutdown(wait=False)
                    elif how == "kill":
                        ex.shutdown(wait=True, kill_workers=True)
                    elif how == "ctx":
                        with ex:
                            pass
                        at_return()
                    elif how == "del":
                        env.notes.pop("ex", None)
                        env.notes["ex_gone"] = True
                        env.executors[:] = []
                        del ex
                    elif how == "exit":
                        pe._python_exit()
                    env.notes["shutdown_returned"] = True
            except BaseException as e:  # noqa
                if isinstance(e, K.Killed):
                    raise
                env.notes.setdefault("api_errors", []).append((op, type(e).__name__, str(e)[:80]))

    def program(env):
        RUNNING_NOW.clear()
        run_thread(env, plan.get("prelude", []), "u0")
        extra = []
        for i, acts in enumerate(plan["threads"][1:], 1):
            extra.append(env.spawn_user(f"u{i}", lambda a=acts, i=i: run_thread(env, a, f"u{i}")))
        run_thread(env, plan["threads"][0], "u0")
        for a in extra:
            env.kern.park("join-user", enabled=lambda a=a: a.done)
        fin = plan["final"]
        if fin == "none":
            return
        env.await_([f for _, f in env.futs.values()])
        env.notes["awaited"] = True
        ex = env.notes.get("ex") or (env.executors[-1] if env.executors else None)
        if ex is None or env.notes.get("ex_gone"):
            return
        env.notes["flags"] = ex._flags
        if "submit" in fin:
            # a reusable executor may have been replaced since it broke: only a submit to the broken instance itself must raise
            env.notes["late_on_broken"] = ex._flags.broken is not None
            try:
                f = ex.submit(Sc.t_value, -1)
                env.notes["late_submit"] = "accepted"
                env.await_([f])
                env.notes["late_result"] = Sc.classify_future(f)
            except BaseException as e:  # noqa
                if isinstance(e, K.Killed):
                    raise
                env.notes["late_submit"] = type(e).__name__
        if "shutdown" in fin and "shutdown" not in env.notes:
            env.notes["procs_at_shutdown"] = list(ex._processes.values())
            ex.shutdown(wait=True)
            env.notes["shutdown_returned"] = True
            try:
                ex.submit(Sc.t_value, -2)
                env.notes["submit_after_shutdown"] = "accepted"
            except BaseException as e:  # noqa
                env.notes["submit_after_shutdown"] = type(e).__name__
    return program


# ---------------------------------------------------------------------- roles of kernel objects
def object_roles(env):
    roles = {}
    for i, ex in enumerate(env.all_executors):
        def sl(x):
            return getattr(getattr(x, "_semlock", None), "name", None)
        cq, rq = ex.get("cq"), ex.get("rq")
        for obj, role in ((cq and cq._rlock, "cq.rlock"), (cq and cq._wlock, "cq.wlock"), (cq and cq._sem, "cq.slot"),
                          (rq and rq._rlock, "rq.rlock"), (rq and rq._wlock, "rq.wlock"), (ex.get("mgmt"), "mgmt")):
            n = sl(obj) if obj is not None else None
            if n:
                roles[n] = role
        if ex.get("shutdown_lock") is not None:
            roles[ex["shutdown_lock"]._s.name] = "shutdown_lock"
    roles["/factory-lock"] = "factory"
    return roles


def norm_op(op, roles):
    m = re.match(r"(sem\.\w+) (\S+)", op)
    if m:
        return f"{m.group(1)}:{roles.get(m.group(2), 'other')}"
    return op.split(" ")[0]



# ---------------------------------------------------------------------- the lock order observed vs the one read off the source
_LOCKS = {}


def generated_lock_order():
    """edges (transitively closed) and excluded edges of tr/units_locks.py: gen_locks on the tree under test"""
    if not _LOCKS:
        try:
            sys.path.insert(0, os.path.join(os.path.dirname(os.path.dirname(HERE)), "tr"))
            import units
            import units_locks
            man = units.gen_locks(os.environ.get("VERIF_REPO", "/repo"))[1]
            es = {tuple(k.split("->")) for k in man["edges"]}
            closure = set(es)
            grew = True
            while grew:
                grew = False
                for a, b in list(closure):
                    for c, d in es:
                        if b == c and (a, d) not in closure:
                            closure.add((a, d))
                            grew = True
            _LOCKS.update(ok=True, closure=closure, excluded=set(units_locks.EXCLUDED))
        except BaseException as e:  # noqa  (translator refused: nothing to compare with)
            _LOCKS.update(ok=False, error=repr(e)[:200])
    return _LOCKS


def lock_order_anomalies(r, env):
    """every (lock held -> untimed wait entered) pair of this run must be a path of the generated relation"""
    gen = generated_lock_order()
    if not gen.get("ok"):
        return []
    names = {"/factory-lock": "LFactory", "TMgr": "TMgr", "PWorker": "PWorker"}
    for ex in env.all_executors:
        def sl(x):
            return getattr(getattr(x, "_semlock", None), "name", None)
        if sl(ex.get("mgmt")):
            names[sl(ex["mgmt"])] = "LMgmt"
        cq = ex.get("cq")
        if cq is not None and sl(cq._sem):
            names[sl(cq._sem)] = "LSlot"
        if ex.get("shutdown_lock") is not None:
            names[ex["shutdown_lock"]._s.name] = "LShutdown"
        if ex.get("submit_resize") is not None and ex["submit_resize"]._s.name not in names:
            names[ex["submit_resize"]._s.name] = "LSubmitResize"
    out = []
    for held, target, role in sorted(getattr(r.kern, "lock_pairs", ())):
        a = "LGlobal" if held.startswith("/global-shutdown-") else names.get(held)
        b = "LGlobal" if target.startswith("/global-shutdown-") else names.get(target)
        if a is None or b is None or a == b or a == "LSlot":
            continue            # a queue slot is a token, not a lock its taker holds; queue internals (CPython's), exit locks, condition variables: not part of the relation
        if a == "PWorker" and b in ("LFactory", "LGlobal", "LShutdown", "LSubmitResize", "TMgr"):
            continue            # per-process objects: the worker's own copies
        if (a, b) not in gen["closure"]:
            out.append((a, b, role))
    return out

# ---------------------------------------------------------------------- what the translator says the manager does
_EXPECT = {}
OBSERVABLE = ("ShutdownWorkers", "QClose CallQ", "QJoinThread CallQ", "QClose ResultQ", "WakeupClose", "FlagBroken", "FlagShutdown",
              "KillWorkers")


def expected_manager_ops():
    """operation lists read off the source by tr/units.py:gen_ledger, projected on what the simulation can observe"""
    if not _EXPECT:
        try:
            sys.path.insert(0, os.path.join(os.path.dirname(os.path.dirname(HERE)), "tr"))
            import units
            man = units.gen_ledger(os.environ.get("VERIF_REPO", "/repo"))[1]["ops"]
            jei = [o for o in man["join_executor_internals"] if o in OBSERVABLE]
            tb = []
            for o in man["terminate_broken"]:
                tb += jei if o == "JoinInternals" else ([o] if o in OBSERVABLE else [])
            fsd = man["flag_executor_shutting_down"]
            _EXPECT.update(ok=True, jei=jei, tb=tb, fsd_plain=[o for o in fsd if o in OBSERVABLE],
                           fsd_kill=[o for o in fsd if o in OBSERVABLE] + (["KillWorkers"] if any("KillWorkers" in o for o in fsd) else []))
        except BaseException as e:  # noqa  (translator refused: nothing to compare with)
            _EXPECT.update(ok=False, error=repr(e)[:200])
    return _EXPECT


def manager_op_anomalies(r, env):
    """the order in which the manager thread really called things vs the generated lists"""
    exp = expected_manager_ops()
    out = []
    if not exp.get("ok"):
        return out
    for rec in env.all_executors:
        mt = rec.get("mgr_actor")
        if mt is None or mt.alive() or getattr(mt, "crashed", False):
            continue
        names = {id(rec["flags"]): None, id(rec["cq"]): " CallQ", id(rec["rq"]): " ResultQ", id(rec.get("wakeup")): ""}
        seq = []
        for key, tok in r.oplog:
            if key in names and tok != "user:shutdown":
                seq.append(tok + (names[key] or "") if tok in ("QClose", "QJoinThread") else tok)
        # split at the entry points
        i = 0
        while i < len(seq):
            tok = seq[i]
            if tok == "enter:terminate_broken":
                got = [t for t in seq[i + 1:] if not t.startswith("enter:")]
                if got != exp["tb"]:
                    out.append(("terminate_broken", got, exp["tb"]))
                break
            if tok.startswith("enter:flag_executor_shutting_down"):
                j = i + 1
                got = []
                while j < len(seq) and not seq[j].startswith("enter:"):
                    got.append(seq[j]); j += 1
                # kill_workers can be switched on by a user thread between the entry and the test: both lists are legitimate,
                # but a list with the flag seen set at the entry must be the killing one
                if got not in (exp["fsd_kill"], exp["fsd_plain"]) or (tok.endswith(":1") and got != exp["fsd_kill"]):
                    out.append(("flag_executor_shutting_down", got, exp["fsd_kill"] if tok.endswith(":1") else exp["fsd_plain"]))
                i = j
                continue
            if tok == "enter:join_executor_internals":
                got = [t for t in seq[i + 1:] if not t.startswith("enter:")]
                if got != exp["jei"]:
                    out.append(("join_executor_internals", got, exp["jei"]))
                break
            i += 1
    return out


# ---------------------------------------------------------------------- monitors
BROKEN = ("BrokenProcessPool", "TerminatedWorkerError")


def analyze(plan, r):
    """list of anomalies: dict(props, kind, sig, detail)"""
    env = r.env
    notes = env.notes
    out = []
    roles = object_roles(env)
    kills = sum(1 for c in r.choices if c[0] == "kill")
    timeouts = sum(1 for c in r.choices if c[0] == "timeout" and c[2] != "sleep")
    fatal_kinds = [k for k in r.kinds.values() if k in Sc.FATAL_KINDS]
    fam = plan["family"]
    # dead lock holders
    dead_holders = []
    for name, sem in K.SimSemLock.registry.items():
        if sem.value == 0:
            for h in sem.holders:
                a = next((x for x in r.kern.actors if x.name == h), None)
                if a is not None and not a.proc.alive:
                    dead_holders.append(roles.get(name, "other"))
    crashes = []
    for name, rep in r.crashes:
        role = name.split("@")[0].rstrip("0123456789") if not name.startswith("w") else "worker"
        crashes.append(f"{role}:{rep.split('(')[0]}")
    blocked = sorted({f"{role}:{norm_op(op, roles)}" for _, role, op in r.blocked})
    pending = [t for t, c in r.futures.items() if c in ("PENDING", "RUNNING")]
    ctx_bits = []
    if kills:
        ctx_bits.append("kill")
    if fatal_kinds:
        ctx_bits.append("fatal-task")
    if timeouts and plan["timeout"]:
        ctx_bits.append("idle-timeout")
    if notes.get("shutdown"):
        ctx_bits.append("shutdown-" + notes["shutdown"])
    if fam == "reuse" and any(a[0] == "get" and a[4] for th in plan["threads"] for a in th):
        ctx_bits.append("forced")
    if plan["reusable"]:
        ctx_bits.append("reusable")
    ctx = "+".join(ctx_bits) or "plain"

    def add(props, kind, sig, detail=""):
        out.append({"props": props, "kind": kind, "sig": sig, "detail": detail})

    hang_props = ["C01"]
    if fam in ("shutdown", "cancelshutdown"):
        hang_props.append("C05")
    if fam in ("timeout",) or (plan["timeout"] and not kills):
        hang_props.append("C07")
    if fam in ("resize", "idleshrink", "cbreuse", "growshrink", "shrinkkill"):
        hang_props += ["C10", "C09"]
    if fam == "reuse":
        hang_props += ["C09"]
    if kills or fatal_kinds:
        hang_props.append("C02")
    if fam in ("killshutdown", "killbadarg") or (fam == "cancelfail" and notes.get("shutdown") == "kill"):
        hang_props.append("C06")
    if fam in ("plain", "full", "timeout", "saturate", "spawnfail", "leakexit") and not kills:
        hang_props += ["C04", "C03", "C08"]
    if fam in ("callback", "excs"):
        hang_props += ["C04"]
    if fam == "race":
        hang_props += ["C09"]
    # 1. crashes of loky's own threads / workers dying of a Python error.  A crash that leaves every
    #    future resolved and every API call returned violates none of the properties (it is kept in the
    #    hang signatures below); it is reported on its own only when the run did not end properly.
    ended_ok = r.status == "quiescent" and r.users_done and not pending
    for c in crashes:
        if c.startswith("worker:") and (kills or fatal_kinds):
            continue
        if c.startswith("manager:"):
            # the executor manager thread died of an exception: whatever happened to the futures, join_executor_internals() did
            # not run (queues, feeder thread, pipes and semaphores stay), so this is reported even when the run ended properly
            add(sorted(set(hang_props + ["C20"] + (["C05"] if fam == "shutdown" else []) + (["C06"] if fam == "killshutdown" or notes.get("shutdown") == "kill" else []))),
                "manager-crash", f"manager-thread-crashed[{c}] ctx[{ctx}]", str(r.crashes[:2]))
            continue
        if c.startswith("QueueFeederThread:") and not kills and not fatal_kinds and "shutdown-kill" not in ctx and "forced" not in ctx:
            # the call-queue feeder thread died of an exception although nothing was killed: items it had buffered are lost
            # silently and the queue is never closed properly
            add(sorted(set(hang_props + ["C04", "C20"])), "feeder-crash", f"feeder-thread-crashed[{c}] ctx[{ctx}]", str(r.crashes[:2]))
            continue
        if ended_ok:
            continue
        add(hang_props, "crash", f"crash[{c}] ctx[{ctx}]", str(r.crashes[:2]))
    # 2. hangs
    spawn_failed = fam == "spawnfail" and any(e_[2] in ("BlockingIOError", "OSError") for e_ in notes.get("submit_errors", [])) \
        or (fam == "spawnfail" and notes.get("late_submit") in ("BlockingIOError", "OSError"))
    # (a submit() that failed because a worker could not be started leaves its item registered: observation O3, outside the
    #  properties' fault model -- in that family only the routing of results is judged, not liveness)
    if fam not in ("saturate", "satreuse") and not (fam == "leakexit" and plan["final"] == "none") and not spawn_failed and r.status in ("quiescent", "polling") and (not r.users_done or pending):
        sig = (f"hang status[{r.status}] blocked[{','.join(blocked)}] dead-holders[{','.join(sorted(set(dead_holders)))}] "
               f"crashes[{','.join(sorted(set(crashes)))}] ctx[{ctx}]")
        if any(b_.endswith("sem.acquire:cq.slot") for b_ in blocked):
            # somebody waits for a free slot of the call queue: how many slots it has is part of the history
            slots = sorted({getattr(ex_.get("cq"), "_maxsize", None) for ex_ in env.all_executors if ex_.get("cq") is not None} - {None})
            sig += f" queue-slots[{','.join(map(str, slots))}]"
        add(hang_props, "hang", sig, f"pending futures {pending}; users_done={r.users_done}")
    if r.status == "steps":
        if (not kills or fam == "shrinkkill") and "user:sleep" in blocked and not spawn_failed:
            # nothing was killed, the step budget is exhausted and a user thread is still inside a polling loop (sleep, look, sleep ...):
            # an API call that polls for ever.  (With kills the known lock-holder findings produce the same picture: left inconclusive --
            # except in family shrinkkill, where the only process killed is a worker just spawned by the resize: the manager must notice its death
            # and break the pool, which ends the resize.)
            sig = (f"livelock status[steps] blocked[{','.join(blocked)}] dead-holders[{','.join(sorted(set(dead_holders)))}] "
                   f"crashes[{','.join(sorted(set(crashes)))}] ctx[{ctx}]")
            add(hang_props, "livelock", sig, f"pending futures {pending}; users_done={r.users_done}")
        else:
            add([], "inconclusive", "steps-exhausted")
    # the rest only makes sense when the run ended
    ended = r.status == "quiescent" and r.users_done and not pending
    broken_futs = [t for t, c in r.futures.items() if isinstance(c, tuple) and c[0] in BROKEN]
    # 3. broken without any death (C07 / C04)
    if broken_futs and not kills and not fatal_kinds:
        # after a resize nothing was killed and yet futures failed with a broken-pool error: the resize did not "preserve submitted work" (C10)
        add(["C07", "C04", "C01"] + (["C10"] if fam in ("resize", "idleshrink", "growshrink") else []), "broken-without-death",
            f"broken-without-death crashes[{','.join(sorted(set(crashes)))}] ctx[{ctx}]",
            f"futures {broken_futs} failed with a BrokenProcessPool error although no worker was killed")
    # 4. execution log: at most once, never after a successful cancel
    seen = {}
    for tid, pid in r.exec_log:
        seen[tid] = seen.get(tid, 0) + 1
    dups = [t for t, n in seen.items() if n > 1]
    if dups:
        add(["C03", "C07"], "double-execution", f"double-execution ctx[{ctx}]", f"tasks {dups}")
    for tid in notes.get("cancelled", []):
        if tid in seen:
            add(["C03"], "executed-after-cancel", f"executed-after-cancel ctx[{ctx}]", f"task {tid}")
        if r.futures.get(tid) != "CANCELLED":
            add(["C03"], "cancel-lost", f"cancel-not-honoured ctx[{ctx}]", f"task {tid}: {r.futures.get(tid)}")
    # 5. outcomes
    for tid, c in r.futures.items():
        kind = r.kinds[tid]
        if isinstance(c, tuple) and c[0] == "value" and c[1] != tid:
            add(["C03"], "misrouted", f"misrouted-result ctx[{ctx}]", f"future {tid} holds the value of task {c[1]}")
        if kind in Sc.EXPECT and not kills and not fatal_kinds and c not in ("CANCELLED", "PENDING", "RUNNING"):
            exp = Sc.EXPECT[kind](tid)
            shut_kill = notes.get("shutdown") == "kill"
            if c != exp and not (shut_kill and c[0] == "ShutdownExecutorError") and not (c[0] in BROKEN):
                add(["C04", "C03"], "wrong-outcome", f"wrong-outcome kind[{kind}] got[{c}] ctx[{ctx}]",
                    f"future {tid} ({kind}) resolved as {c}, expected {exp}")
    flags = notes.get("flags")
    if ended and flags is not None:
        # 6. kills / fatal tasks: loud failure
        if broken_futs:
            if not any(rec["flags"].broken is not None for rec in env.all_executors):
                add(["C02"], "broken-flag-missing", f"futures-broken-but-flag-unset ctx[{ctx}]")
            if "late_submit" in notes and notes["late_submit"] == "accepted" and notes.get("late_on_broken", True):
                add(["C02"], "submit-after-broken-accepted", f"submit-accepted-after-break ctx[{ctx}]",
                    str(notes.get("late_result")))
            alive = [p.pid for rec in env.all_executors if rec["flags"].broken is not None
                     for p in env.worker_procs() if p.alive and p.pid in rec.get("all_pids", ())]
            if alive:
                add(["C02"], "survivors", f"workers-survive-broken-pool ctx[{ctx}]", str(alive))
        elif (kills or fatal_kinds) and flags.broken is not None:
            pass
        # a pool that is not broken must still work
        if flags.broken is None and not notes.get("shutdown") and "late_submit" in notes and not spawn_failed:
            if notes["late_submit"] != "accepted" or notes.get("late_result") != ("value", -1):
                add(["C04", "C01"], "pool-unusable", f"healthy-pool-refuses-work got[{notes.get('late_submit')},{notes.get('late_result')}] ctx[{ctx}]")
        if not kills and not fatal_kinds and flags.broken is not None:
            add(["C04", "C07", "C05"] + (["C10"] if fam in ("resize", "idleshrink", "growshrink") else []), "broken-flag-without-death",
                f"broken-flag-without-death ctx[{ctx}]", repr(flags.broken)[:200])
    # 7. graceful shutdown (C05)
    if fam == "shutdown" and ended and not kills:
        how = notes.get("shutdown")
        procs = notes.get("procs_at_shutdown", [])
        codes = [p._st.exitcode for p in procs if p._st is not None]
        alive = [p.pid for p in env.worker_procs() if p.alive]
        mgr_alive = [a.name for a in r.kern.actors if a.role in ("manager", "feeder") and not a.done]
        if how in ("wait", "ctx", "exit") or r.status == "quiescent":
            if alive:
                add(["C05", "C20"], "workers-left", f"workers-alive-after-graceful-shutdown how[{how}] ctx[{ctx}]", str(alive))
            if any(c not in (0, None) for c in codes) and flags is not None and flags.broken is None:
                add(["C05"], "unclean-exit", f"worker-exit-code-nonzero how[{how}] ctx[{ctx}]", str(codes))
            if mgr_alive:
                add(["C05", "C20"], "threads-left", f"management-threads-alive how[{how}] ctx[{ctx}]", str(mgr_alive))
        for tid, c in r.futures.items():
            if c == "CANCELLED" or not isinstance(c, tuple):
                continue
            if c[0] in ("ShutdownExecutorError",) :
                add(["C05"], "work-dropped", f"graceful-shutdown-dropped-work how[{how}] ctx[{ctx}]", f"task {tid}: {c}")
    # 7b. what a waited graceful shutdown leaves at the instant it returns (C05)
    awr = notes.get("at_waited_shutdown_return")
    if fam == "shutdown" and awr and not kills and (awr["unfinished"] or awr["manager_alive"] or awr["workers_alive"]):
        ukinds = ",".join(sorted({r.kinds.get(t, "?") for t in awr["unfinished"]}))
        add(["C05"], "waited-shutdown-returned-early",
            f"waited-shutdown-returned-early unfinished[{ukinds}] manager[{awr['manager_alive']}] workers[{bool(awr['workers_alive'])}] "
            f"how[{notes.get('shutdown')}] ctx[{ctx}]", str(awr))
    # 8. forced shutdown (C06)
    if fam == "killshutdown" and r.status in ("quiescent", "polling"):
        if not notes.get("shutdown_returned"):
            pass   # reported as hang above
        alive = [p.pid for p in env.worker_procs() if p.alive]
        if notes.get("shutdown_returned") and alive:
            add(["C06"], "survivors", f"workers-survive-kill-shutdown ctx[{ctx}]", str(alive))
        for tid, c in r.futures.items():
            ok = c == "CANCELLED" or (isinstance(c, tuple) and (c[0] in ("value", "ShutdownExecutorError")))
            if notes.get("shutdown_returned") and not ok:
                add(["C06"], "bad-outcome", f"kill-shutdown-outcome got[{c}] ctx[{ctx}]", f"task {tid}")
    # 9. resize (C10)
    if fam == "resize" and ended and "last_resize" in notes and not kills:
        worker_timeouts = sum(1 for c in r.choices if c[0] == "timeout" and str(c[1]).startswith("w"))
        for want, pids, broken, same_started, faults, before in notes.get("all_resizes", [notes["last_resize"]]):
            if not (not broken and same_started and faults == 0 and worker_timeouts == 0 and len(plan["threads"]) == 1):
                continue
            if len(pids) != want:
                add(["C10", "C09"], "wrong-size", f"resize-wrong-size want[{want}] got[{len(pids)}] ctx[{ctx}]")
            kept = len(set(before) & set(pids))
            # Proofs/ResizeThm.resize_returns_as_asked: min(alive-when-it-looked, requested) previous workers are kept
            if kept != min(len(before), want):
                add(["C10"], "survivors-restarted", f"resize-kept[{kept}]-of-previous[{len(before)}]-for[{want}] ctx[{ctx}]",
                    f"before {before} after {pids}")
    # 9f. idle time-outs before a shrinking resize, none after it: the pool must hold exactly the requested number of workers once
    #     everything has settled (a sentinel too many would take a worker away after _resize returned)
    if fam == "idleshrink" and ended and not kills and "last_resize" in notes and notes.get("at_rest_before_resize"):
        want, pids, broken = notes["last_resize"][0], notes["last_resize"][1], notes["last_resize"][2]
        alive_end = sorted(p.pid for p in env.worker_procs() if p.alive)
        if not broken and len(alive_end) != want:
            add(["C10"], "unstable-size", f"resize-size-not-stable want[{want}] at-return[{len(pids)}] settled[{len(alive_end)}] ctx[{ctx}]",
                f"workers at return {pids}, after everything settled {alive_end}")
    # 9a. get_reusable_executor / _resize raised on a healthy pool
    if fam in ("resize", "reuse") and not kills and not fatal_kinds:
        for op, ename, msg in notes.get("api_errors", []):
            if op in ("resize", "get") and ename not in ("ValueError",):
                add(["C10", "C09"], "resize-raised", f"resize-raised[{ename}] ctx[{ctx}]", msg)
    # 9b. the factory (C09)
    if fam == "reuse":
        last_id = -1
        for gi, rec in enumerate(notes.get("gets", [])):
            post, pre = rec.get("post"), rec.get("pre")
            if post is None:
                continue
            if pre is not None and rec["stored_kw"] != pre["kw"]:
                add(["C09"], "stored-kwargs-mismatch", f"factory-stored-kwargs-are-not-those-of-the-current-instance ctx[{ctx}]", str(rec))
            if post["is_prev"] and rec["args"]["reuse"] is False:
                add(["C09"], "reuse-false-ignored", f"factory-returned-the-previous-instance-although-reuse-is-False ctx[{ctx}]", str(rec))
            if post["is_prev"]:
                if pre is None or pre["broken"] or pre["shutdown"]:
                    add(["C09"], "dead-pool-handed-out", f"factory-returned-dead-previous-instance ctx[{ctx}]", str(rec))
            else:
                if post["broken"] and not kills or post["shutdown"]:
                    add(["C09"], "dead-pool-handed-out", f"factory-returned-dead-new-instance ctx[{ctx}]", str(rec))
                if post["eid"] <= last_id or (pre is not None and post["eid"] <= pre["eid"]) or post["eid"] != rec["next"]:
                    add(["C09"], "id-not-increasing", f"factory-id-not-increasing ctx[{ctx}]", str(rec))
                if post.get("prev_mgr_alive") or post.get("prev_workers_alive"):
                    add(["C09", "C06"], "previous-not-shut-down",
                        f"factory-returned-before-previous-instance-was-down mgr[{post.get('prev_mgr_alive')}] ctx[{ctx}]", str(rec))
            last_id = max(last_id, post["eid"])
            want = rec["args"]["max"]
            if want is not None and post["max"] != want:
                add(["C09", "C10"], "wrong-size", f"factory-wrong-max_workers want[{want}] got[{post['max']}] ctx[{ctx}]", str(rec))
        if ended and not kills and not fatal_kinds:
            for tid, c in r.futures.items():
                if isinstance(c, tuple) and c[0] in BROKEN + ("ShutdownExecutorError",) and r.kinds[tid] != "sysexit" \
                        and not any(a[0] in ("break", "shutdown_cur") or (a[0] == "get" and a[4]) for th in plan["threads"] for a in th):
                    add(["C09"], "task-lost", f"factory-task-failed got[{c[0]}] ctx[{ctx}]", f"task {tid}")
    # 9e. callers racing with identical arguments (C09): one instance for all of them, and only one live pool
    if fam == "race" and ended:
        ids = sorted({eid for _, eid in notes.get("rgets", [])})
        cur = S.re_._executor
        live = [rec["flags"] for rec in env.all_executors if not rec["flags"].shutdown and rec["flags"].broken is None]
        if len(ids) > 1:
            add(["C09"], "not-a-singleton", f"racing-callers-with-identical-arguments-got-different-executors n[{len(ids)}] ctx[{ctx}]",
                str(notes.get("rgets")))
        elif ids and (cur is None or cur.executor_id != ids[0]):
            add(["C09"], "not-current", f"racing-callers-hold-an-executor-that-is-not-the-current-one ctx[{ctx}]", str(notes.get("rgets")))
        if len(live) > 1:
            add(["C09"], "several-live-pools", f"several-live-reusable-pools n[{len(live)}] ctx[{ctx}]", str(notes.get("rgets")))
    # 9d. the manager's real call order vs the operation lists generated from the source (ties tr/units.py:gen_ledger to the runtime)
    if not crashes:
        for fn, got, want in manager_op_anomalies(r, env):
            add(["C20", "C01", "C02", "C05", "C06"], "manager-ops-differ", f"manager-ops-differ[{fn}] ctx[{ctx}]", f"executed {got}, generated list says {want}")
    # 9e. the order in which locks are really entered vs the relation generated from the source (ties tr/units_locks.py to the runtime)
    for a, b, role in lock_order_anomalies(r, env):
        add(["C01"], "lock-order-differs", f"lock-order-edge-not-generated[{a}->{b}] by[{role}]", "entered while held, but not a path of Gen/LockOrder.v")
    # 9c. statements proved on the control model (coq/Model/Pool.v), watched on the real objects after every step
    for name, where in getattr(r, "inv_violations", {}).items():
        if name == "manager-gone-with-pending" and (crashes or r.status != "quiescent"):
            continue        # a crashed manager thread is reported as such
        add(["C01", "C02"] if name == "manager-gone-with-pending" else ["C02", "C01"], "model-invariant-violated",
            f"proved-invariant-violated[{name}] ctx[{ctx}]", f"at step {where[0]}: {where[1]}")
    # 10. parallelism (C08)
    mx = getattr(r, "max_registered", None)
    if mx is not None and mx[0] > mx[1]:
        add(["C08"], "over-parallel", f"registered-workers-exceed-max got[{mx[0]}] max[{mx[1]}] ctx[{ctx}]")
    if fam in ("saturate", "leakexit") and r.status == "quiescent":
        want = min(plan["workers"], sum(1 for k in r.kinds.values() if k == "block")) if fam == "leakexit" else min(plan["workers"], len(r.kinds))
        if len(RUNNING_NOW) != want:
            add(["C08"], "under-parallel", f"saturated-pool-runs[{len(RUNNING_NOW)}]-of[{want}] ctx[{ctx}]",
                f"blocked: {blocked}")
    if fam == "satreuse" and r.status == "quiescent":
        want = plan["saturate_to"]
        slots = sorted({getattr(ex_.get("cq"), "_maxsize", None) for ex_ in env.all_executors if ex_.get("cq") is not None} - {None})
        nblock = sum(1 for k in r.kinds.values() if k == "block")
        bound = min([want, nblock] + slots[:1])
        if len(RUNNING_NOW) < bound:
            # Model/QueueCap.v, C08_delivered_parallelism_partial: a settled pool runs at least min(workers, slots, unfinished) tasks
            add(["C08"], "under-parallel", f"saturated-pool-runs[{len(RUNNING_NOW)}]-below-the-proved-bound[{bound}] ctx[{ctx}] queue-slots[{','.join(map(str, slots))}]",
                f"blocked: {blocked}")
        elif len(RUNNING_NOW) != want:
            # how many slots the call queue has is part of the history: it is created once, sized from the host (5 in the simulation)
            add(["C08"], "under-parallel", f"saturated-pool-runs[{len(RUNNING_NOW)}]-of[{want}] ctx[{ctx}] queue-slots[{','.join(map(str, slots))}]",
                f"blocked: {blocked}")
    return out
