#!/venv/bin/python
"""tf_batch.py <family> <seed0> <count> <out.txt>: run scenarios with the token tracer and write their
observation traces in the format of coq/extract/tf_driver.ml, plus a JSON index line per trace."""
import json
import os
import random
import sys
import warnings

HERE = os.path.dirname(os.path.abspath(__file__))
sys.path.insert(0, HERE)
warnings.simplefilter("ignore")
import scenarios as Sc  # noqa: E402
import explore as E  # noqa: E402
import tftrace as T  # noqa: E402


def main():
    fam, seed0, n, outp = sys.argv[1], int(sys.argv[2]), int(sys.argv[3]), sys.argv[4]
    index = []
    with open(outp, "w") as out:
        for seed in range(seed0, seed0 + n):
            plan = E.gen_plan(random.Random(f"{fam}-{seed}"), fam)
            prog = E.make_program(plan)

            def prog2(env, prog=prog):
                env.tracer = T.TokenTracer(env)
                prog(env)
            holder = {}

            def killable(p, plan=plan, holder=holder):
                if not p.name.startswith("LokyProcess"):
                    return False
                if plan.get("kill_after_shutdown"):
                    env = holder.get("env")
                    return env is not None and "shutdown" in env.notes
                return True
            chooser = Sc.sticky_chooser(seed) if seed % 2 else Sc.random_chooser(seed)
            try:
                r = Sc.run_scenario(prog2, chooser, max_steps=6000, kill_budget=plan["kill_budget"],
                                    killable=killable, holder=holder)
            except BaseException as e:  # noqa
                index.append({"id": f"{fam}-{seed}", "error": repr(e)})
                continue
            tr = r.env.tracer
            out.write(f"TRACE {fam}-{seed} {tr.cap()}\n")
            out.write("\n".join(tr.lines) + ("\n" if tr.lines else ""))
            out.write("END\n")
            index.append({"id": f"{fam}-{seed}", "events": len(tr.lines), "status": r.status, "plan": plan,
                          "seed": seed, "n_execs": len(r.env.all_executors)})
    with open(outp + ".idx", "w") as f:
        json.dump(index, f)
    sys.stdout.flush()
    os._exit(0)


if __name__ == "__main__":
    main()
