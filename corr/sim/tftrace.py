"""Observation of the token-flow components of a simulated executor after every scheduling step, in the
line format read by coq/extract/tf_driver.ml (trace validation against coq/Model/TokenFlow.v)."""
import multiprocessing.queues as mpq

import loky_sim as S
import scenarios as Sc

pe = S.pe


def fcode(f):
    st = f._state
    if st == "PENDING":
        return "p"
    if st == "RUNNING":
        return "r"
    if st.startswith("CANCELLED"):
        return "c"
    e = f._exception
    if e is None:
        return "v"
    n = type(e).__name__
    if n in ("BrokenProcessPool", "TerminatedWorkerError"):
        return "b"
    if n == "ShutdownExecutorError":
        return "h"
    msg = str(e)
    if (n == "PicklingError" and msg.startswith("Could not pickle the task")) or \
            (n == "RuntimeError" and msg.startswith("The task could not be sent")):
        return "e"
    return "x"


class TokenTracer:
    def __init__(self, env):
        self.env = env
        self.lines = []
        self.prev = None
        self.futmap = {}
        self.wid_of = {}
        self.tid2wid = {}
        self.n_events = 0
        env.kern.step_hooks.append(self.hook)

    def rec(self):
        return self.env.all_executors[0] if self.env.all_executors else None

    def obs(self):
        rec = self.rec()
        if rec is None:
            return None
        pend = rec["pending"]
        for w, item in dict.items(pend):
            if w not in self.futmap:
                self.futmap[w] = item.future
                self.wid_of[id(item.future)] = w
                if item.args and isinstance(item.args[0], int):
                    self.tid2wid[item.args[0]] = w
        futs = ",".join(f"{w}:{fcode(f)}" for w, f in sorted(self.futmap.items()))
        cq, rq = rec["cq"], rec["rq"]
        buf = []
        for it in list(cq._buffer):
            if it is None:
                buf.append("s")
            elif isinstance(it, pe._CallItem):
                buf.append(f"c{it.work_id}")

        def tags(core, call):
            out = []
            for t in core.tags:
                if t is None:
                    out.append("o" if not call else "s")
                elif t[0] == "C":
                    out.append(f"c{t[1]}")
                elif t[0] == "S":
                    out.append("s")
                elif t[0] == "R":
                    out.append(f"r{t[1]}")
                else:
                    out.append("o")
            return ",".join(out)
        executed = []
        for tid, _pid in Sc.EXEC_LOG:
            if tid in self.tid2wid:
                executed.append(str(self.tid2wid[tid]))
        return " | ".join([
            futs, ",".join(map(str, dict.keys(pend))), ",".join(map(str, list(rec["work_ids"].queue))),
            ",".join(map(str, list.__iter__(rec["running"]))), ",".join(buf),
            tags(cq._reader.core, True), tags(rq._reader.core, False),
            str(cq._sem._semlock.value), ",".join(executed)])

    def hook(self, kern):
        a = kern.current
        o = self.obs()
        if o is None or o == self.prev:
            return
        if self.prev is None:
            self.prev = o
            return
        self.prev = o
        if a.role == "user":
            code = "U" + a.name[1:]
        elif a.role == "manager":
            code = "M"
        elif a.role == "feeder":
            code = "F"
        elif a.role == "worker":
            code = f"W{a.proc.pid}"
        else:
            code = "U99"
        self.lines.append(f"{code} | {o}")
        self.n_events += 1

    def cap(self):
        rec = self.rec()
        return rec["cq"]._maxsize if rec else 0
