"""Deterministic simulation kernel: actors (threads and 'processes') run one at a time; every
primitive operation is a scheduling point; the scheduler decides who runs, which blocked timed
operation times out, and where a process is killed.  The primitive semantics implemented here is
the one coq/Lib/Kernel.v states: counting semaphores with no hand-off, message pipes, sentinels
ready iff the process is dead, a killed process keeps every semaphore it holds.
"""
import collections
import struct
import itertools
import threading

RECURSIVE_MUTEX, SEMAPHORE = 0, 1
SEM_VALUE_MAX = 2147483647


class Killed(BaseException):
    pass


class Actor:
    _ids = itertools.count(1)

    def __init__(self, kernel, name, proc, fn, role):
        self.k = kernel
        self.id = next(Actor._ids)
        self.name = name
        self.proc = proc
        self.fn = fn
        self.role = role            # 'user' | 'manager' | 'feeder' | 'worker' | 'thread'
        self.go = threading.Semaphore(0)
        self.pending = ("start", None, False)   # (op, enabled, can_timeout)
        self.verdict = None
        self.done = False
        self.error = None
        self.thread = threading.Thread(target=self._run, name=f"sim-{name}", daemon=True)
        self.blocked_on = None
        self.opcount = 0

    def _run(self):
        self.go.acquire()
        self.k.by_thread[threading.get_ident()] = self
        try:
            self.fn()
        except Killed:
            pass
        except SystemExit as e:
            self.error = e
            if self.role == "worker":
                code = e.code if isinstance(e.code, int) else (0 if e.code is None else 1)
                self.proc._exit(code)
        except BaseException as e:  # noqa
            self.error = e
            self.k.crashes.append((self.name, repr(e)))
            if self.role == "worker":
                self.proc._exit(1)
        else:
            if self.role == "worker":
                self.proc._exit(0)
        finally:
            self.done = True
            self.pending = None
            self.k.back.release()

    def alive(self):
        return not self.done and (self.proc is None or self.proc.alive)


class SimProcessState:
    """the OS view of a process"""
    _pids = itertools.count(1000)

    def __init__(self, kernel, name, parent):
        self.k = kernel
        self.pid = next(SimProcessState._pids)
        self.name = name
        self.parent = parent
        self.alive = True
        self.exitcode = None
        self.actors = []
        self.bank = {}            # per-process module globals
        self.children = []

    def _exit(self, code):
        if self.alive:
            self.alive = False
            self.exitcode = code
            self.k.trace("exit", self.pid, code)

    def kill(self, sig=9):
        if self.alive:
            self.alive = False
            self.exitcode = -sig
            self.k.trace("kill", self.pid, sig)
            for c in self.children:      # kill_process_tree semantics are implemented by the caller
                pass


class Kernel:
    def __init__(self, chooser, max_steps=4000, trace_ops=True):
        self.chooser = chooser            # fn(kernel, candidates) -> index
        self.actors = []
        self.by_thread = {}
        self.back = threading.Semaphore(0)
        self.clock = 0.0
        self.steps = 0
        self.max_steps = max_steps
        self.crashes = []
        self.events = []                  # trace
        self.trace_ops = trace_ops
        self.root = SimProcessState(self, "root", None)
        self.procs = {self.root.pid: self.root}
        self.current = None
        self.timeout_allowed = lambda a: True      # a scenario may freeze some timed waits (e.g. idle time-outs after a given point)
        self.choices = []                 # the schedule actually taken
        self.kill_budget = 0
        self.killable = lambda p: False
        self.env_choices = lambda k: []   # extra environment candidates: list of (label, fn)
        self.switch_hooks = []            # fn(old_proc, new_proc): bank swapping
        self.stop = False
        self.poll_streak = 0
        self.step_hooks = []

    # ------------------------------------------------------------------ actors
    def spawn(self, name, fn, proc=None, role="thread"):
        a = Actor(self, name, proc if proc is not None else self.cur_proc(), fn, role)
        self.actors.append(a)
        a.proc.actors.append(a)
        a.thread.start()
        return a

    def new_process(self, name):
        p = SimProcessState(self, name, self.cur_proc())
        self.procs[p.pid] = p
        self.cur_proc().children.append(p)
        return p

    def note_wait(self, target):
        """the current actor is about to wait (without time-out) for `target` (a lock name or a pseudo-lock): remember what it holds"""
        a = self.cur_actor()
        if a is None:
            return
        if not hasattr(self, "lock_pairs"):
            self.lock_pairs = set()
        for s_ in list(SimSemLock.registry.values()):
            if s_.name != target and a.name in s_.holders:
                self.lock_pairs.add((s_.name, target, a.role))
        for pseudo in getattr(a, "pseudo_held", ()) or (("PWorker",) if a.role == "worker" else ()):
            self.lock_pairs.add((pseudo, target, a.role))

    def cur_actor(self):
        return self.by_thread.get(threading.get_ident())

    def cur_proc(self):
        a = self.cur_actor()
        return a.proc if a is not None else self.root

    def trace(self, *ev):
        self.events.append(ev)

    # ------------------------------------------------------------------ scheduling point
    def park(self, op, enabled=None, can_timeout=False, obj=None):
        """called by the running actor before a primitive operation.
        returns 'go' when the operation may proceed (enabled() holds) or 'timeout'."""
        a = self.cur_actor()
        if a is None:
            # not under the scheduler (setup code): operate immediately
            if enabled is not None and not enabled():
                raise RuntimeError(f"blocking operation {op} outside an actor")
            return "go"
        a.pending = (op, enabled, can_timeout)
        a.blocked_on = obj
        a.opcount += 1
        self.back.release()
        a.go.acquire()
        if not a.proc.alive:
            raise Killed()
        a.blocked_on = None
        v = a.verdict
        if self.trace_ops:
            self.events.append(("op", a.name, op, v))
        return v

    def candidates(self):
        c = []
        for a in self.actors:
            if a.done or not a.proc.alive or a.pending is None:
                continue
            op, en, ct = a.pending
            ok = True if en is None else bool(en())
            if ok:
                c.append(("run", a))
            elif ct and self.timeout_allowed(a):
                c.append(("timeout", a))
        return c

    def run(self):
        """main scheduling loop; returns 'quiescent' | 'steps' | 'stopped'"""
        while True:
            if self.stop:
                return "stopped"
            if self.steps >= self.max_steps:
                return "steps"
            cands = self.candidates()
            if cands and all(kind == "timeout" and a.pending[0] == "sleep" for kind, a in cands):
                self.poll_streak += 1
                if self.poll_streak > 40 * max(1, len(cands)):
                    return "polling"
            else:
                self.poll_streak = 0
            env = []
            if self.kill_budget > 0:
                env += [("kill", p) for p in self.procs.values() if p.alive and self.killable(p)]
            env += [("env", e) for e in self.env_choices(self)]
            if not cands and not any(k == "env" for k, _ in env):
                return "quiescent"
            allc = cands + env
            i = self.chooser(self, allc)
            kind, x = allc[i]
            self.steps += 1
            if kind == "kill":
                self.kill_budget -= 1
                self.choices.append(("kill", x.pid))
                x.kill()
                continue
            if kind == "env":
                label, fn = x
                self.choices.append(("env", label))
                fn()
                continue
            a = x
            self.choices.append((kind, a.name, a.pending[0]))
            a.verdict = "go" if kind == "run" else "timeout"
            if kind == "timeout":
                self.clock += 1.0
            old = self.current
            self.current = a
            for h in self.switch_hooks:
                h(old.proc if old else None, a.proc)
            a.go.release()
            self.back.acquire()
            for h in self.step_hooks:
                h(self)


# ---------------------------------------------------------------------- semaphores
class SimSemLock:
    """drop-in for _multiprocessing.SemLock"""
    registry = {}
    kernel = None
    _names = itertools.count(1)

    def __init__(self, kind, value, maxvalue, name=None, unlink=False):
        self.kind = kind
        self.value = value
        self.maxvalue = maxvalue
        self.name = name or f"/sim-{next(SimSemLock._names)}"
        self.owner = None       # actor id for RECURSIVE_MUTEX / last acquirer
        self.count = 0
        self.holders = []       # actor names currently holding a token (diagnostics)
        self.handle = id(self)
        SimSemLock.registry[self.name] = self

    @classmethod
    def _rebuild(cls, handle, kind, maxvalue, name):
        return cls.registry[name]

    def _after_fork(self):
        pass

    def _me(self):
        a = SimSemLock.kernel.cur_actor()
        return a.id if a is not None else 0

    def _can(self):
        if self.kind == RECURSIVE_MUTEX and self.owner == self._me() and self.count > 0:
            return True
        return self.value > 0

    def acquire(self, block=True, timeout=None):
        k = SimSemLock.kernel
        me = self._me()
        if self.kind == RECURSIVE_MUTEX and self.owner == me and self.count > 0:
            k.park(f"sem.reacquire {self.name}")
            self.count += 1
            return True
        if not block:
            k.park(f"sem.tryacquire {self.name}", obj=self)
            if self.value > 0:
                return self._take(me)
            return False
        if timeout is not None and timeout <= 0:
            k.park(f"sem.tryacquire {self.name}", obj=self)
            if self.value > 0:
                return self._take(me)
            return False
        if timeout is None:
            k.note_wait(self.name)      # an untimed wait entered while holding other locks: one edge of the lock order per held lock
        v = k.park(f"sem.acquire {self.name}", enabled=lambda: self.value > 0,
                   can_timeout=timeout is not None, obj=self)
        if v == "timeout":
            return False
        return self._take(me)

    def _take(self, me):
        self.value -= 1
        self.owner = me
        self.count += 1
        a = SimSemLock.kernel.cur_actor()
        self.holders.append(a.name if a else "?")
        return True

    def release(self):
        k = SimSemLock.kernel
        me = self._me()
        k.park(f"sem.release {self.name}", obj=self)
        if self.kind == RECURSIVE_MUTEX:
            if not (self.owner == me and self.count > 0):
                raise AssertionError("attempt to release recursive lock not owned by thread")
            if self.count > 1:
                self.count -= 1
                return
            self.count = 0
        else:
            if self.maxvalue != 1:
                if self.value >= self.maxvalue:
                    raise ValueError("semaphore or lock released too many times")
            elif self.value >= 1:
                raise ValueError("semaphore or lock released too many times")
            if self.count > 0:
                self.count -= 1
        self.value += 1
        a = k.cur_actor()
        nm = a.name if a else "?"
        if nm in self.holders:
            self.holders.remove(nm)
        elif self.holders:
            self.holders.pop(0)

    __enter__ = acquire

    def __exit__(self, *a):
        self.release()

    def _count(self):
        return self.count if self.owner == self._me() else 0

    def _is_mine(self):
        return self.owner == self._me() and self.count > 0

    def _get_value(self):
        return self.value

    def _is_zero(self):
        return self.value == 0


class SimLock:
    """threading.Lock replacement (in-process mutex, scheduling point)"""
    def __init__(self, name=None):
        self._s = SimSemLock(SEMAPHORE, 1, 1, name=name)

    def acquire(self, blocking=True, timeout=-1):
        if not blocking:
            return self._s.acquire(False)
        return self._s.acquire(True, None if timeout is None or timeout < 0 else timeout)

    def release(self):
        if self._s.value >= 1:
            raise RuntimeError("release unlocked lock")
        self._s.release()

    def locked(self):
        return self._s.value == 0

    __enter__ = acquire

    def __exit__(self, *a):
        self.release()


class SimRLock(SimLock):
    def __init__(self, name=None):
        self._s = SimSemLock(RECURSIVE_MUTEX, 1, 1, name=name)

    def release(self):
        self._s.release()

    def _is_owned(self):
        return self._s._is_mine()


class SimCondition:
    """threading.Condition replacement (used for Queue._notempty)"""
    def __init__(self, lock=None):
        self._lock = lock if lock is not None else SimRLock()
        self.acquire = self._lock.acquire
        self.release = self._lock.release
        self._waiters = 0
        self._tokens = 0

    def __enter__(self):
        return self._lock.__enter__()

    def __exit__(self, *a):
        return self._lock.__exit__(*a)

    def wait(self, timeout=None):
        k = SimSemLock.kernel
        self._waiters += 1
        self._lock.release()
        v = k.park("cond.wait", enabled=lambda: self._tokens > 0, can_timeout=timeout is not None, obj=self)
        got = v != "timeout"
        if got:
            self._tokens -= 1
        self._waiters -= 1
        self._lock.acquire()
        return got

    def notify(self, n=1):
        self._tokens = min(self._waiters, self._tokens + n)

    def notify_all(self):
        self._tokens = self._waiters


# ---------------------------------------------------------------------- pipes
class SimPipeCore:
    _ids = itertools.count(1)

    def __init__(self):
        self.id = next(SimPipeCore._ids)
        self.msgs = collections.deque()
        self.tags = collections.deque()      # what each message is (set by the harness' dumps wrapper)


SEND_LIMIT = 1 << 20


class SimConnection:
    """one process's handle on one end of a pipe"""
    kernel = None

    def __init__(self, core, readable, writable):
        self.core = core
        self.readable = readable
        self.writable = writable
        self._closed = False

    def __reduce__(self):
        return (SimConnection, (self.core, self.readable, self.writable))

    @property
    def closed(self):
        return self._closed

    def _check(self):
        if self._closed:
            raise OSError("handle is closed")

    def fileno(self):
        self._check()
        return 100000 + self.core.id

    def close(self):
        self._closed = True

    def send_bytes(self, buf, offset=0, size=None):
        self._check()
        SimConnection.kernel.park(f"pipe.send {self.core.id}", obj=self)
        self._check()
        b = bytes(buf)
        if len(b) > SEND_LIMIT:
            # what Connection.send_bytes does where messages have a size limit (2 GiB before Python 3.8): the message is refused
            # AFTER it has been pickled -- the "too large to send" clause of C04, scaled down
            raise struct.error("'i' format requires -2147483648 <= number <= 2147483647")
        self.core.msgs.append(b[offset:] if size is None else b[offset:offset + size])
        a = SimConnection.kernel.cur_actor()
        self.core.tags.append(getattr(a, "send_tag", None) if a is not None else None)
        if a is not None:
            a.send_tag = None

    def send(self, obj):
        from multiprocessing.reduction import ForkingPickler
        self.send_bytes(ForkingPickler.dumps(obj))

    def recv_bytes(self, maxlength=None):
        self._check()
        SimConnection.kernel.park(f"pipe.recv {self.core.id}", enabled=lambda: len(self.core.msgs) > 0, obj=self)
        self._check()
        if self.core.tags:
            self.core.tags.popleft()
        return self.core.msgs.popleft()

    def recv(self):
        from multiprocessing.reduction import ForkingPickler
        return ForkingPickler.loads(self.recv_bytes())

    def poll(self, timeout=0.0):
        self._check()
        k = SimConnection.kernel
        if timeout is not None and timeout <= 0:
            k.park(f"pipe.poll0 {self.core.id}", obj=self)
            return len(self.core.msgs) > 0
        v = k.park(f"pipe.poll {self.core.id}", enabled=lambda: len(self.core.msgs) > 0,
                   can_timeout=timeout is not None, obj=self)
        return v != "timeout"

    def ready(self):
        return len(self.core.msgs) > 0

    def __enter__(self):
        return self

    def __exit__(self, *a):
        self.close()


def sim_pipe(duplex=False):
    core = SimPipeCore()
    return SimConnection(core, True, False), SimConnection(core, False, True)


class SimSentinel:
    def __init__(self, proc):
        self.proc = proc

    def ready(self):
        return not self.proc.alive

    def __hash__(self):
        return hash(("sentinel", self.proc.pid))

    def __eq__(self, o):
        return isinstance(o, SimSentinel) and o.proc is self.proc


def sim_wait(object_list, timeout=None):
    k = SimConnection.kernel
    objs = list(object_list)

    def ready():
        return [o for o in objs if o.ready()]
    if timeout is not None and timeout <= 0:
        k.park("wait0")
        return ready()
    a_ = k.cur_actor()
    if a_ is not None:
        a_.wait_objs = tuple(objs)      # what this actor sleeps on (watched invariant: every registered worker's sentinel is among them)
    v = k.park("wait", enabled=lambda: bool(ready()), can_timeout=timeout is not None, obj=tuple(objs))
    if v == "timeout":
        return []
    return ready()
