#!/venv/bin/python
"""batch.py <family> <seed0> <count> [out.json]: run `count` generated scenarios of one family in this
(disposable) process and dump a JSON summary.  --replay <file> re-runs one recorded scenario."""
import json
import os
import random
import sys
import time
import warnings

HERE = os.path.dirname(os.path.abspath(__file__))
sys.path.insert(0, HERE)
warnings.simplefilter("ignore")
import scenarios as Sc  # noqa: E402
import explore as E  # noqa: E402


def run_one(plan, seed, choices=None, max_steps=6000):
    if choices is not None:
        chooser = Sc.replay_chooser(choices)
    elif seed % 10 == 9:
        # the user threads rush ahead: everybody else moves only when they are blocked
        chooser = Sc.starving_chooser(seed, victim_role=("worker", "feeder", "manager", "thread"))
    elif seed % 5 == 4:
        chooser = Sc.starving_chooser(seed, victim_role="user")
    elif seed % 5 in (2, 3):
        chooser = Sc.freezing_chooser(seed)
    elif seed % 2:
        chooser = Sc.sticky_chooser(seed)
    else:
        chooser = Sc.random_chooser(seed)
    prog = E.make_program(plan)
    holder = {}

    def killable(p):
        if not p.name.startswith("LokyProcess"):
            return False
        if plan.get("kill_only_workers_spawned_by_resize"):
            env = holder.get("env")
            return env is not None and "pids_alive_at_resize" in env.notes and p.pid not in env.notes["pids_alive_at_resize"]
        if plan.get("kill_after_shutdown"):
            env = holder.get("env")
            return env is not None and "shutdown" in env.notes
        return True
    r = Sc.run_scenario(prog, chooser, max_steps=max_steps, kill_budget=plan["kill_budget"],
                        killable=killable, holder=holder)
    an = E.analyze(plan, r)
    rec = {"seed": seed, "plan": plan, "status": r.status, "steps": r.steps, "anomalies": an,
           "futures": {str(k): (list(v) if isinstance(v, tuple) else v) for k, v in r.futures.items()},
           "n_actors": len(r.kern.actors), "kills": sum(1 for c in r.choices if c[0] == "kill"),
           "timeouts": sum(1 for c in r.choices if c[0] == "timeout" and c[2] != "sleep")}
    if an:
        rec["choices"] = [list(c) for c in r.choices]
    if plan["family"] == "reuse":
        rec["gets"] = r.env.notes.get("gets", [])
    return rec


def main():
    if sys.argv[1] == "--replay":
        rec = json.load(open(sys.argv[2]))
        out = run_one(rec["plan"], rec["seed"], choices=[tuple(c) for c in rec["choices"]])
        print(json.dumps({"status": out["status"], "anomalies": out["anomalies"], "futures": out["futures"]}))
        sys.stdout.flush()
        os._exit(0)
    family, seed0, count = sys.argv[1], int(sys.argv[2]), int(sys.argv[3])
    out = sys.argv[4] if len(sys.argv) > 4 else None
    recs = []
    t0 = time.time()
    for i in range(count):
        seed = seed0 + i
        rng = random.Random(f"{family}-{seed}")
        plan = E.gen_plan(rng, family)
        try:
            recs.append(run_one(plan, seed))
        except BaseException as e:  # noqa
            recs.append({"seed": seed, "plan": plan, "status": "harness-error", "error": repr(e), "anomalies": []})
    res = {"family": family, "seed0": seed0, "count": count, "wall_s": round(time.time() - t0, 2), "runs": recs}
    txt = json.dumps(res)
    if out:
        with open(out, "w") as f:
            f.write(txt)
    else:
        print(txt)
    sys.stdout.flush()
    os._exit(0)


if __name__ == "__main__":
    main()
