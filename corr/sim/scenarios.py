"""Scenario DSL, task zoo, schedule choosers and property monitors for the simulated executor."""
import os
import random
import struct
import sys

HERE = os.path.dirname(os.path.abspath(__file__))
sys.path.insert(0, HERE)
import kernel as K  # noqa: E402
import loky_sim as S  # noqa: E402

pe = S.pe

# ---------------------------------------------------------------------- task zoo (module level: pickled by reference)
EXEC_LOG = []          # (task id, worker pid) appended by every task body that starts executing


def _log(tid):
    EXEC_LOG.append((tid, S.sim_getpid()))


def t_value(tid, steps=1):
    _log(tid)
    for _ in range(steps):
        S.k().park("task.run")
    return ("value", tid)


def t_leak(tid):
    """a task after which its worker's memory is far above its reference measurement: the worker leaves through the memory-leak
    protection (announces its pid, exits cleanly) unless this was its very first task"""
    _log(tid)
    S.k().park("task.run")
    S.SIM_MEM[S.sim_getpid()] = S.SIM_MEM.get(S.sim_getpid(), 0) + 1000
    return ("value", tid)


class TaskError(Exception):
    pass


def t_raise(tid):
    _log(tid)
    S.k().park("task.run")
    raise TaskError(tid)


def t_sysexit(tid):
    _log(tid)
    raise SystemExit(3)


def t_kbint(tid):
    _log(tid)
    raise KeyboardInterrupt()


class StatefulError(Exception):
    """constructor with several arguments of which only a message reaches Exception.__init__; the rest lives in the instance"""
    def __init__(self, code, detail):
        super().__init__(f"failed with {code}")
        self.code, self.detail = code, detail

    def __reduce__(self):
        return (StatefulError, (self.code, self.detail))


def t_raise_json(tid):
    """an exception whose class cannot be rebuilt as type(e)(*e.args): json.JSONDecodeError(msg, doc, pos)"""
    _log(tid)
    import json
    json.loads('{"unterminated": ')


def t_raise_stateful(tid):
    _log(tid)
    raise StatefulError(tid, "detail")


def t_raise_oserror(tid):
    _log(tid)
    raise FileNotFoundError(2, "No such file or directory", f"/nonexistent/{tid}")


def t_die(tid, sig=9):
    """the task takes its worker down (segfault / os._exit / kill -9)"""
    _log(tid)
    S.k().park("task.run")
    S.k().cur_proc().kill(sig)
    raise K.Killed()


class BadArg:
    """cannot be pickled on the way to the worker"""
    def __reduce__(self):
        raise ValueError("BadArg cannot be pickled")


class BadArgBadRepr:
    """cannot be pickled AND cannot be printed (a closed handle): nothing in the executor may need its repr"""
    def __reduce__(self):
        raise ValueError("BadArgBadRepr cannot be pickled")

    def __repr__(self):
        raise OSError(9, "Bad file descriptor")


class HugeArg:
    """too large for send_bytes"""
    def __reduce__(self):
        raise struct.error("'i' format requires -2147483648 <= number <= 2147483647")


def _boom_rebuild():
    raise RuntimeError("cannot be unpickled")


class BadUnpickle:
    """pickles fine, fails to unpickle on the other side"""
    def __reduce__(self):
        return (_boom_rebuild, ())


class BadResult:
    def __reduce__(self):
        raise ValueError("BadResult cannot be pickled")


def t_badresult(tid):
    _log(tid)
    return BadResult()


def t_badunpickle_result(tid):
    _log(tid)
    return BadUnpickle()


def t_arg(tid, arg):
    _log(tid)
    return ("value", tid)


TASK_KINDS = ["value", "value", "value", "long", "raise", "sysexit", "badarg", "hugearg", "badresult"]
FATAL_KINDS = ["die", "badunpickle_arg", "badunpickle_result"]


def submit_kind(ex, kind, tid):
    if kind == "value":
        return ex.submit(t_value, tid)
    if kind == "long":
        return ex.submit(t_value, tid, 3)
    if kind == "leak":
        return ex.submit(t_leak, tid)
    if kind == "raise":
        return ex.submit(t_raise, tid)
    if kind == "raise_json":
        return ex.submit(t_raise_json, tid)
    if kind == "raise_stateful":
        return ex.submit(t_raise_stateful, tid)
    if kind == "raise_oserror":
        return ex.submit(t_raise_oserror, tid)
    if kind == "sysexit":
        return ex.submit(t_sysexit, tid)
    if kind == "kbint":
        return ex.submit(t_kbint, tid)
    if kind == "badarg":
        return ex.submit(t_arg, tid, BadArg())
    if kind == "badarg_badrepr":
        return ex.submit(t_arg, tid, BadArgBadRepr())
    if kind == "hugearg":
        return ex.submit(t_arg, tid, HugeArg())
    if kind == "badresult":
        return ex.submit(t_badresult, tid)
    if kind == "bigarg":
        return ex.submit(t_arg, tid, b"x" * (2 << 20))     # pickles fine, refused by send_bytes in the feeder thread
    if kind == "die":
        return ex.submit(t_die, tid)
    if kind == "badunpickle_arg":
        return ex.submit(t_arg, tid, BadUnpickle())
    if kind == "badunpickle_result":
        return ex.submit(t_badunpickle_result, tid)
    raise ValueError(kind)


def classify_future(f):
    """canonical outcome of a future"""
    if not f.done():
        return "PENDING" if not f.running() else "RUNNING"
    if f.cancelled():
        return "CANCELLED"
    e = f.exception()
    if e is None:
        r = f.result()
        return ("value", r[1]) if isinstance(r, tuple) else ("other", repr(r))
    name = type(e).__name__
    cause = type(e.__cause__).__name__ if e.__cause__ is not None else None
    extra = None
    if name == "StatefulError":
        extra = (getattr(e, "code", None) is not None, getattr(e, "detail", None))
    elif name == "FileNotFoundError":
        extra = (e.errno, bool(e.filename))
    elif name == "JSONDecodeError":
        extra = (getattr(e, "pos", None), getattr(e, "doc", None))
    return (name, cause) if extra is None else (name, cause, extra)


EXPECT = {
    "value": lambda tid: ("value", tid), "long": lambda tid: ("value", tid),
    "raise": lambda tid: ("TaskError", "_RemoteTraceback"),
    "raise_json": lambda tid: ("JSONDecodeError", "_RemoteTraceback", (17, '{"unterminated": ')),
    "raise_stateful": lambda tid: ("StatefulError", "_RemoteTraceback", (True, "detail")),
    "raise_oserror": lambda tid: ("FileNotFoundError", "_RemoteTraceback", (2, True)),
    "sysexit": lambda tid: ("SystemExit", "_RemoteTraceback"),
    "kbint": lambda tid: ("KeyboardInterrupt", "_RemoteTraceback"),
    "badarg": lambda tid: ("PicklingError", "_RemoteTraceback"),
    "badarg_badrepr": lambda tid: ("PicklingError", "_RemoteTraceback"),
    "hugearg": lambda tid: ("RuntimeError", "_RemoteTraceback"),
    "bigarg": lambda tid: ("RuntimeError", "_RemoteTraceback"),
    "badresult": lambda tid: ("ValueError", "_RemoteTraceback"),
}


# ---------------------------------------------------------------------- choosers
def random_chooser(seed, w_run=10, w_timeout=2, w_kill=1, w_env=1, w_sleep=0.05):
    rng = random.Random(seed)

    def choose(kern, cands):
        ws = []
        for kind, x in cands:
            if kind == "run":
                ws.append(w_run)
            elif kind == "timeout":
                ws.append(w_sleep if x.pending[0] == "sleep" else w_timeout)
            elif kind == "kill":
                ws.append(w_kill)
            else:
                ws.append(w_env)
        return rng.choices(range(len(cands)), weights=ws)[0]
    return choose


def sticky_chooser(seed, stick=0.85, **kw):
    """keeps running the same actor with probability `stick`: one thread runs far ahead while the
    others stall, which exposes windows a uniform scheduler rarely opens"""
    rng = random.Random(seed * 31 + 7)
    base = random_chooser(seed, **kw)
    last = [None]

    def choose(kern, cands):
        if last[0] is not None and rng.random() < stick:
            for i, (kind, x) in enumerate(cands):
                if kind == "run" and x is last[0]:
                    return i
        i = base(kern, cands)
        kind, x = cands[i]
        last[0] = x if kind in ("run", "timeout") else None
        return i
    return choose


def starving_chooser(seed, victim_role="user", p_timeout=0.7, **kw):
    """runs everybody else to a standstill -- firing their timed waits too -- before the victim role (by default the user threads)
    gets its next step: the schedules in which a whole episode of the pool's life (idle time-outs, reaps, re-spawns) fits between two
    statements of submit() / shutdown() / _resize()"""
    rng = random.Random(seed * 17 + 3)
    base = random_chooser(seed, **kw)

    def choose(kern, cands):
        victims = victim_role if isinstance(victim_role, (tuple, set, frozenset)) else (victim_role,)
        others = [i for i, (kind, x) in enumerate(cands) if kind == "run" and getattr(x, "role", None) not in victims]
        if others:
            return rng.choice(others)
        touts = [i for i, (kind, x) in enumerate(cands) if kind == "timeout" and getattr(x, "role", None) not in victims
                 and x.pending[0] != "sleep"]
        if touts and rng.random() < p_timeout:
            return rng.choice(touts)
        return base(kern, cands)
    return choose


def freezing_chooser(seed, p_freeze=0.1, p_timeout=0.6, **kw):
    """at a random scheduling point an actor is frozen where it stands; everybody else then runs to a standstill (timed waits
    expiring too) before it is thawed: a whole episode of the pool's life fits between two statements of ANY thread -- the
    manager between reading its counters and popping the worker, a worker inside its exit path, a user inside submit()"""
    rng = random.Random(seed * 13 + 5)
    base = random_chooser(seed, **kw)
    frozen = [None]

    def choose(kern, cands):
        runs = [i for i, (kind, x) in enumerate(cands) if kind == "run"]
        if frozen[0] is not None:
            others = [i for i in runs if cands[i][1] is not frozen[0]]
            if others:
                return rng.choice(others)
            touts = [i for i, (kind, x) in enumerate(cands) if kind == "timeout" and x is not frozen[0] and x.pending[0] != "sleep"]
            if touts and rng.random() < p_timeout:
                return rng.choice(touts)
            frozen[0] = None
        i = base(kern, cands)
        kind, x = cands[i]
        if kind == "run" and len(runs) + sum(1 for k, _ in cands if k == "timeout") > 1 and rng.random() < p_freeze:
            frozen[0] = x
            return choose(kern, cands)
        return i
    return choose


def replay_chooser(choices):
    it = iter(choices)

    def choose(kern, cands):
        try:
            want = next(it)
        except StopIteration:
            kern.stop = True
            return 0
        for i, (kind, x) in enumerate(cands):
            if kind == want[0]:
                if kind in ("run", "timeout") and x.name == want[1]:
                    return i
                if kind == "kill" and x.pid == want[1]:
                    return i
                if kind == "env" and x[0] == want[1]:
                    return i
        kern.stop = True
        kern.replay_diverged = (want, [(c[0], getattr(c[1], "name", None)) for c in cands])
        return 0
    return choose


# ---------------------------------------------------------------------- running one scenario
class Result:
    pass


def blocked_report(kern):
    out = []
    for a in kern.actors:
        if a.done or not a.proc.alive or a.pending is None:
            continue
        op, en, ct = a.pending
        if en is not None and not en():
            out.append((a.name, a.role, op))
    return out


def run_scenario(program, chooser, max_steps=4000, kill_budget=0, killable=None, trace_ops=False, holder=None):
    """program(env) is the root user actor; returns a Result with everything the monitors need"""
    del EXEC_LOG[:]
    kern = S.new_kernel(chooser, max_steps=max_steps, trace_ops=trace_ops)
    kern.kill_budget = kill_budget
    kern.killable = killable or (lambda p: p is not kern.root)
    env = Env(kern)
    if holder is not None:
        holder["env"] = env
    kern.spawn("u0", lambda: program(env), proc=kern.root, role="user")
    status = kern.run()
    r = Result()
    r.status = status
    r.steps = kern.steps
    r.choices = kern.choices
    r.env = env
    r.kern = kern
    r.blocked = blocked_report(kern)
    r.crashes = list(kern.crashes)
    r.exec_log = list(EXEC_LOG)
    r.users_done = all(a.done for a in kern.actors if a.role == "user")
    r.futures = {tid: classify_future(f) for tid, (kind, f) in env.futs.items()}
    r.kinds = {tid: kind for tid, (kind, f) in env.futs.items()}
    r.max_registered = tuple(env.max_registered)
    r.inv_violations = dict(env.inv_violations)
    r.oplog = list(S.OPLOG)
    return r


class Env:
    """what a scenario program can do"""
    def __init__(self, kern):
        self.kern = kern
        self.futs = {}          # tid -> (kind, future)
        self.notes = {}
        self.ctx = S.SimContext()
        self._tid = 0
        self.executors = []
        self.all_executors = []     # references captured at creation (shutdown() nulls the attributes)
        self.max_registered = [0, 0]
        self.inv_violations = {}     # statements proved on coq/Model/Pool.v, watched on the real objects after every step
        kern.step_hooks.append(self._sample)

    def _sample(self, kern):
        # (Proofs/PoolThm.loud_before_any_broken_future) a future failed with a BrokenProcessPool error => the flag is set
        if "broken-future-before-flag" not in self.inv_violations:
            for tid, (kind, f) in self.futs.items():
                ex_ = getattr(f, "_exception", None)
                if f._state == "FINISHED" and ex_ is not None and type(ex_).__name__ in ("BrokenProcessPool", "TerminatedWorkerError"):
                    if not any(rec["flags"].broken is not None for rec in self.all_executors):
                        self.inv_violations["broken-future-before-flag"] = (kern.steps, tid)
                    break
        # (Proofs/PoolThm.manager_gone_means_all_settled) once the manager thread has ended, nothing is left unresolved in its table
        if "manager-gone-with-pending" not in self.inv_violations:
            for rec in self.all_executors:
                mt = rec.get("mgr_actor")
                if mt is None:
                    ex = rec["ex"]() if callable(rec["ex"]) else rec["ex"]
                    t = getattr(ex, "_executor_manager_thread", None) if ex is not None else None
                    mt = getattr(t, "_sim_actor", None)
                    if mt is not None:
                        rec["mgr_actor"] = mt
                if mt is not None and not mt.alive() and not getattr(mt, "crashed", False):
                    left = [k for k, w in list(rec["pending"].items()) if w.future._state in ("PENDING", "RUNNING")]
                    if left:
                        self.inv_violations["manager-gone-with-pending"] = (kern.steps, left)
        # (Proofs/WatchThm.every_registered_worker_is_watched) whenever the manager sleeps with nothing on its way to wake it and no
        # submit() / resize in progress, the sentinel of every registered worker is among the objects it sleeps on
        if "registered-worker-not-watched" not in self.inv_violations:
            users_idle = all(a.done or (a.pending is not None and str(a.pending[0]).split(" ")[0] in ("await", "pause", "join-user"))
                             for a in kern.actors if a.role == "user")
            if users_idle:
                for rec in self.all_executors:
                    mt = rec.get("mgr_actor")
                    if mt is None or not mt.alive() or mt.pending is None or mt.pending[0] != "wait":
                        continue
                    op, en, ct = mt.pending
                    if en is not None and en():
                        continue                      # something is ready: it is about to wake up and rebuild its list
                    objs = getattr(mt, "wait_objs", ())
                    missing = [pid for pid, p in dict.copy(rec["procs"]).items() if getattr(p, "sentinel", None) is not None and p.sentinel not in objs]
                    if missing:
                        self.inv_violations["registered-worker-not-watched"] = (kern.steps, missing)
        for rec in self.all_executors:
            ex = rec["ex"]() if callable(rec["ex"]) else rec["ex"]
            procs = rec["procs"]
            if ex is not None:
                rec["hwm"] = max(rec["hwm"], ex._max_workers)
            n = len(procs)
            rec.setdefault("all_pids", set()).update(procs.keys())
            if n > self.max_registered[0] or self.max_registered[1] == 0:
                if n > self.max_registered[0]:
                    self.max_registered = [n, rec["hwm"]]
                elif self.max_registered[1] == 0:
                    self.max_registered[1] = rec["hwm"]

    def _record(self, e):
        import weakref
        if any(r["id"] == id(e) for r in self.all_executors):
            return
        self.all_executors.append({"id": id(e), "ex": weakref.ref(e), "cq": e._call_queue, "rq": e._result_queue,
                                   "mgmt": e._processes_management_lock, "shutdown_lock": e._shutdown_lock,
                                   "procs": e._processes, "flags": e._flags, "hwm": e._max_workers,
                                   "pending": e._pending_work_items, "running": e._running_work_items,
                                   "work_ids": e._work_ids, "wakeup": e._executor_manager_thread_wakeup,
                                   "submit_resize": getattr(e, "_submit_resize_lock", None)})

    def executor(self, max_workers=2, timeout=None, **kw):
        e = pe.ProcessPoolExecutor(max_workers, context=self.ctx, timeout=timeout, **kw)
        self.executors.append(e)
        self._record(e)
        return e

    def reusable(self, max_workers=2, timeout=10, **kw):
        e = S.re_.get_reusable_executor(max_workers=max_workers, context=self.ctx, timeout=timeout, **kw)
        if e not in self.executors:
            self.executors.append(e)
        self._record(e)
        return e

    def submit(self, ex, kind):
        tid = self._tid
        self._tid += 1
        try:
            f = submit_kind(ex, kind, tid)
        except BaseException as e:  # noqa
            self.notes.setdefault("submit_errors", []).append((tid, kind, type(e).__name__))
            return None
        self.futs[tid] = (kind, f)
        return f

    def await_(self, futs):
        futs = [f for f in futs if f is not None]
        self.kern.park("await", enabled=lambda: all(f.done() for f in futs))

    def spawn_user(self, name, fn):
        return self.kern.spawn(name, fn, proc=self.kern.root, role="user")

    def worker_procs(self):
        return [p for p in self.kern.procs.values() if p is not self.kern.root]
