"""C17 correspondence + search: the real loky.backend.context.cpu_count under substituted inputs
against (a) the generated Coq model and (b) the property oracle max(1, min(limits))."""
import math
import sys
import types
import warnings

V2 = "/sys/fs/cgroup/cpu.max"
V1Q = "/sys/fs/cgroup/cpu/cpu.cfs_quota_us"
V1P = "/sys/fs/cgroup/cpu/cpu.cfs_period_us"


class FakeFile:
    def __init__(self, s):
        self.s = s

    def read(self):
        return self.s

    def __enter__(self):
        return self

    def __exit__(self, *a):
        return False


def run_real(repo, cfg, calls):
    """cfg: dict(os, aff, psutil, fs, env, probe, cache); calls: list of bool (only_physical_cores)
    returns list of per-call [outcome, n_warnings, cache_after]"""
    if sys.path[0] != repo:
        sys.path.insert(0, repo)
    import loky.backend.context as C

    def sched_getaffinity(pid):
        if cfg["aff"] is None:
            raise NotImplementedError
        return set(range(cfg["aff"]))

    fake_os = types.SimpleNamespace(
        cpu_count=lambda: cfg["os"],
        sched_getaffinity=sched_getaffinity,
        path=types.SimpleNamespace(exists=lambda p: p in cfg["fs"]),
        environ=dict(cfg["env"]),
        name="posix",
    )

    def fake_open(name, *a, **k):
        if name not in cfg["fs"]:
            raise FileNotFoundError(name)
        return FakeFile(cfg["fs"][name])

    def probe():
        if isinstance(cfg["probe"], int):
            return cfg["probe"]
        raise RuntimeError("probe failed")

    class P:
        pass
    if cfg["psutil"] == "missing":
        fake_psutil = None
    else:
        proc = P()
        if cfg["psutil"] != "noattr":
            n = cfg["psutil"]
            proc.cpu_affinity = lambda: list(range(n))
        fake_psutil = types.SimpleNamespace(Process=lambda: proc)

    saved = (C.os, C.__dict__.get("open"), C._count_physical_cores_linux, C.physical_cores_cache,
             sys.modules.get("psutil", "absent"), C.traceback)
    out = []
    try:
        C.os = fake_os
        C.open = fake_open
        C._count_physical_cores_linux = probe
        C.traceback = types.SimpleNamespace(print_tb=lambda *a, **k: None)
        sys.modules["psutil"] = fake_psutil
        C.physical_cores_cache = cfg["cache"]
        for flag in calls:
            with warnings.catch_warnings(record=True) as w:
                warnings.simplefilter("always")
                try:
                    r = C.cpu_count(only_physical_cores=flag)
                    res = ["int", r] if isinstance(r, int) and not isinstance(r, bool) else ["other", repr(r)]
                except BaseException as e:  # noqa
                    res = ["raise", type(e).__name__]
            out.append([res, len(w), C.physical_cores_cache])
    finally:
        C.os = saved[0]
        if saved[1] is None:
            C.__dict__.pop("open", None)
        else:
            C.open = saved[1]
        C._count_physical_cores_linux = saved[2]
        C.physical_cores_cache = saved[3]
        C.traceback = saved[5]
        if saved[4] == "absent":
            sys.modules.pop("psutil", None)
        else:
            sys.modules["psutil"] = saved[4]
    return out


# --------------------------------------------------------------------------- generator
def gen_cfg(rng, malformed):
    osn = rng.choice([None, 1, 2, 4, 8, 16, 64, 128, rng.randint(1, 300)])
    if rng.random() < 0.03:
        osn = 0
    big = osn or 1
    aff = rng.choice([None, 1, max(1, big // 2), big, rng.randint(1, big + 3)])
    psutil = rng.choice(["missing", "noattr", 1, max(1, big // 2), big])
    fs = {}
    u = rng.random()
    p = rng.choice([100000, 100000, 1000, 1, 250000, 1000000, rng.randint(1, 2000000)])
    qk = rng.random()
    if qk < 0.25:
        q = p * rng.randint(1, 2 * big + 2)
    elif qk < 0.6:
        q = rng.randint(1, p * (2 * big + 2))
    elif qk < 0.7:
        q = rng.choice([1, p - 1, p + 1, 2 ** 44 - 1, 2 ** 40 + 1])
    elif qk < 0.8:
        q = rng.choice([-1, 0, -100000])
    else:
        q = rng.randint(1, 10 ** 7)
    if u < 0.25:
        pass
    elif u < 0.45:
        fs[V2] = f"max {p}\n"
    elif u < 0.7:
        fs[V2] = f"{q} {p}\n"
    elif u < 0.9:
        fs[V1Q] = f"{q}\n"
        fs[V1P] = f"{p}\n"
        if rng.random() < 0.1:
            fs.pop(rng.choice([V1Q, V1P]))
    else:
        fs[V2] = f"{q} {p}\n"
        fs[V1Q] = "50000\n"
        fs[V1P] = "100000\n"
    env = {}
    e = rng.random()
    if e < 0.45:
        pass
    elif e < 0.8:
        env["LOKY_MAX_CPU_COUNT"] = str(rng.choice([1, 2, 3, big, big + 5, 1000, rng.randint(1, 2 * big + 1)]))
    else:
        env["LOKY_MAX_CPU_COUNT"] = str(rng.choice([0, -1, -5]))
    probe = rng.choice([None, 0, 1, max(1, big // 2), big, rng.randint(-2, big + 2)])
    cache = rng.choice([None, None, None, "not found", 1, max(1, big // 2)])
    if malformed:
        k = rng.randrange(12)
        if k == 0:
            fs[V2] = "max\n"
        elif k == 1:
            fs[V2] = "abc 100000\n"
        elif k == 2:
            fs[V2] = ""
        elif k == 3:
            fs[V2] = "1 2 3\n"
        elif k == 4:
            fs[V2] = f"  {q}\t{p} \n\n"
        elif k == 5:
            fs.pop(V2, None)
            fs[V1Q] = "1_000_000\n"
            fs[V1P] = "+100_000\n"
        elif k == 6:
            env["LOKY_MAX_CPU_COUNT"] = "x"
        elif k == 7:
            env["LOKY_MAX_CPU_COUNT"] = ""
        elif k == 8:
            env["LOKY_MAX_CPU_COUNT"] = " 7 "
        elif k == 9:
            env["LOKY_MAX_CPU_COUNT"] = "+5"
        elif k == 10:
            fs[V2] = f"{q} 0\n"
        else:
            fs.pop(V2, None)
            fs[V1Q] = "max\n"
            fs[V1P] = "oops\n"
    calls = [rng.random() < 0.6 for _ in range(rng.choice([1, 1, 2, 3]))]
    return dict(os=osn, aff=aff, psutil=psutil, fs=fs, env=env, probe=probe, cache=cache), calls


# --------------------------------------------------------------------------- property oracle
def oracle(cfg, flag, cache):
    """C17 as stated; returns expected int, or None when the configuration is outside the
    property's domain (unparsable inputs: the code raises, characterised by the theorem C17_raises_iff)"""
    osn = cfg["os"] or 1
    if cfg["aff"] is not None:
        aff = cfg["aff"]
    elif cfg["psutil"] not in ("missing", "noattr"):
        aff = cfg["psutil"]
    else:
        aff = osn
    try:
        fs = cfg["fs"]
        if V2 in fs:
            parts = fs[V2].split()
            if len(parts) != 2:
                return None
            qs, ps = parts
        elif V1Q in fs and V1P in fs:
            qs, ps = fs[V1Q].strip(), fs[V1P].strip()
        else:
            qs, ps = "max", "100000"
        if qs == "max":
            cg = osn
        else:
            q, p = int(qs), int(ps)
            cg = -(-q // p) if q > 0 and p > 0 else osn
        envv = int(cfg["env"]["LOKY_MAX_CPU_COUNT"]) if "LOKY_MAX_CPU_COUNT" in cfg["env"] else osn
    except ValueError:
        return None
    user = min(aff, cg, envv)
    logical = max(1, min(osn, user))
    if not flag:
        return logical
    if user < osn:
        return logical          # a user-imposed limit is below the OS count
    if cache is not None:
        phys = cache
    else:
        phys = cfg["probe"] if isinstance(cfg["probe"], int) and cfg["probe"] >= 1 else "not found"
    return phys if phys != "not found" else logical


# --------------------------------------------------------------------------- coq side
def cs(s):
    if all(32 <= ord(c) < 127 and c != '"' for c in s):
        return '"' + s + '"'
    if s.endswith("\n") and all(32 <= ord(c) < 127 and c != '"' for c in s[:-1]):
        return '(ln "' + s[:-1] + '")'
    return "(bsN [" + "; ".join(str(ord(c)) for c in s) + "]%N)"


def coq_cfg(cfg):
    def z(n):
        return f"({n})%Z"
    os_ = "None" if cfg["os"] is None else f"(Some {z(cfg['os'])})"
    aff = "(Err NotImplementedError)" if cfg["aff"] is None else f"(Ok {z(cfg['aff'])})"
    if cfg["psutil"] == "missing":
        ps = "(Some ImportError) false 0%Z"
    elif cfg["psutil"] == "noattr":
        ps = "None false 0%Z"
    else:
        ps = f"None true {z(cfg['psutil'])}"
    fs = "[" + "; ".join(f"({cs(k)}, {cs(v)})" for k, v in cfg["fs"].items()) + "]"
    env = "[" + "; ".join(f"({cs(k)}, {cs(v)})" for k, v in cfg["env"].items()) + "]"
    probe = f"(Ok {z(cfg['probe'])})" if isinstance(cfg["probe"], int) else "(Err RuntimeError)"
    return f"(Build_cpu_cfg {os_} {aff} {ps} {fs} {env} {probe})"


def coq_dyn(v):
    if v is None:
        return "DNone"
    if isinstance(v, int):
        return f"(DInt ({v})%Z)"
    return f"(DStr {cs(v)})"


EXN = {"ValueError": "ValueError", "TypeError": "TypeError", "KeyError": "KeyError",
       "ZeroDivisionError": "ZeroDivisionError", "FileNotFoundError": "FileNotFoundError",
       "IndexError": "IndexError", "RuntimeError": "RuntimeError"}


def coq_outcome(o):
    res, nw, cache = o
    if res[0] == "int":
        r = f"(Ret (DInt ({res[1]})%Z))"
    elif res[0] == "raise":
        r = f"(Raise {EXN.get(res[1], 'OtherError')})"
    else:
        r = f"(Ret (DStr {cs(res[1].strip(chr(39)))}))"
    return f"({r}, {nw}%nat, {coq_dyn(cache)})"


def cases_file(cases):
    rows = []
    for cfg, calls, outs in cases:
        cl = "[" + "; ".join("true" if c else "false" for c in calls) + "]"
        ol = "[" + "; ".join(coq_outcome(o) for o in outs) + "]"
        rows.append(f"(({coq_cfg(cfg)}, {coq_dyn(cfg['cache'])}, {cl}), {ol})")
    return ("From Coq Require Import List String Ascii ZArith Bool.\n"
            "From LokyV Require Import Lib.PyLib Lib.CpuCfg Gen.Cpu.\nImport ListNotations.\nOpen Scope string_scope.\n"
            "Definition ctl_eqb (a b : ctl dyn) : bool := match a, b with\n"
            " | Ret x, Ret y => dyn_eqb x y | Raise x, Raise y => exn_eqb x y || exn_eqb y OtherError | Norm, Norm => true | _, _ => false end.\n"
            "Definition out_eqb (a b : ctl dyn * nat * dyn) : bool :=\n"
            "  let '(c1, n1, d1) := a in let '(c2, n2, d2) := b in ctl_eqb c1 c2 && Nat.eqb n1 n2 && dyn_eqb d1 d2.\n"
            "Fixpoint run_calls (cfg : cpu_cfg) (cache : dyn) (calls : list bool) : list (ctl dyn * nat * dyn) :=\n"
            "  match calls with [] => [] | f :: tl =>\n"
            "    let '(c, l) := cpu_count_run cfg f cache [] in\n"
            "    (c, List.length (cpu_count_v_eff l), cpu_count_v_physical_cores_cache l)\n"
            "      :: run_calls cfg (cpu_count_v_physical_cores_cache l) tl end.\n"
            "Definition run (x : cpu_cfg * dyn * list bool) := let '(cfg, cache, calls) := x in run_calls cfg cache calls.\n"
            "Definition cases : list ((cpu_cfg * dyn * list bool) * list (ctl dyn * nat * dyn)) :=\n [" + ";\n  ".join(rows) + "].\n"
            "Eval vm_compute in (mismatches_from (list_eqb out_eqb) run cases 0).\n")
