"""C11 correspondence + search: the real resource_tracker.main() against
 (a) the generated Coq model (translator/PyLib validation, evaluated by vm_compute), and
 (b) the property oracle: the abstract count machine run on the *abstract* requests the
     generator encoded (never parsing), i.e. the property itself.
"""
import io
import json
import os
import random
import signal
import sys

KNOWN_TYPES = ["folder", "file", "semlock"]


# --------------------------------------------------------------------------- real side
def run_real(repo, data, fail_names=()):
    """run loky.backend.resource_tracker.main on the byte stream in a forked child;
    returns the ordered event list"""
    if sys.path[0] != repo:
        sys.path.insert(0, repo)
    import loky.backend.resource_tracker  # noqa: F401  (imported once in the parent; children inherit it)
    r, w = os.pipe()
    rr, rw = os.pipe()
    pid = os.fork()
    if pid == 0:
        code = 1
        try:
            os.close(w)
            os.close(rr)
            dn = os.open(os.devnull, os.O_WRONLY)
            os.dup2(dn, 2)
            if sys.path[0] != repo:
                sys.path.insert(0, repo)
            import loky.backend.resource_tracker as rt
            events = []

            def mk(t):
                def f(name):
                    events.append(["cleanup", t, name])
                    if name in fail_names:
                        raise OSError("injected cleanup failure")
                return f
            for t in list(rt._CLEANUP_FUNCS):
                rt._CLEANUP_FUNCS[t] = mk(t)
            sys.excepthook = lambda *a: events.append(["report"])

            def fake_signal(s, h):
                events.append(["signal.signal", getattr(s, "name", str(s)), getattr(h, "name", str(h))])
            def fake_mask(how, sigs):
                events.append(["signal.pthread_sigmask", getattr(how, "name", str(how)),
                               "_IGNORED_SIGNALS" if tuple(sigs) == tuple(rt._IGNORED_SIGNALS)
                               else repr(tuple(sigs))])
            rt.signal.signal = fake_signal
            rt.signal.pthread_sigmask = fake_mask
            try:
                rt.main(r)
                events.append(["returned"])
            except BaseException as e:     # main() itself must never raise
                events.append(["main-raised", type(e).__name__])
            out = json.dumps(events).encode()
            while out:
                n = os.write(rw, out)
                out = out[n:]
            code = 0
        finally:
            os._exit(code)
    os.close(r)
    os.close(rw)
    try:
        view = memoryview(data)
        while view:
            n = os.write(w, view)
            view = view[n:]
    except BrokenPipeError:
        pass
    os.close(w)
    chunks = []
    while True:
        b = os.read(rr, 1 << 16)
        if not b:
            break
        chunks.append(b)
    os.close(rr)
    os.waitpid(pid, 0)
    raw = b"".join(chunks)
    if not raw:
        return [["child-died"]]
    return json.loads(raw)


# --------------------------------------------------------------------------- generator
NAMES = ["a", "b", "/tmp/x", "dir:with:colons", "sp ace", "x" * 40, "C:\\win", "n0", "", "é-not-ascii"]


def gen_case(rng):
    """returns (list of (abstract request, line bytes)), stream bytes"""
    names = rng.sample(NAMES[:9], rng.randint(1, 6))
    n = rng.randint(0, 40)
    items = []
    for _ in range(n):
        u = rng.random()
        name = rng.choice(names)
        t = rng.choice(KNOWN_TYPES)
        if u < 0.40:
            req = ("REG", t, name)
            line = f"REGISTER:{name}:{t}\n".encode("ascii")
        elif u < 0.72:
            req = ("MAYBE", t, name)
            line = f"MAYBE_UNLINK:{name}:{t}\n".encode("ascii")
        elif u < 0.84:
            req = ("UNREG", t, name)
            line = f"UNREGISTER:{name}:{t}\n".encode("ascii")
        elif u < 0.88:
            req = ("PROBE",)
            line = b"PROBE:0:noop\n"
        else:
            req = ("BAD",)
            k = rng.randrange(11)
            if k == 0:
                line = b"REGISTER:\xff\xfe:file\n"
            elif k == 1:
                line = f"FROBNICATE:{name}:{t}\n".encode()
            elif k == 2:
                line = f"REGISTER:{name}:shared_memory\n".encode()
            elif k == 3:
                line = b"\n"
            elif k == 4:
                line = b"REGISTER\n"
            elif k == 5:
                line = f"register:{name}:{t}\n".encode()
            elif k == 6:
                line = b":::\n"
            elif k == 7:
                line = f"MAYBE_UNLINK:{name}:{t}:\n".encode()
            elif k == 8:
                line = f"REGISTER:{name}: {t}\n".encode()     # type with a leading blank
            elif k == 9:
                line = f"UNREGISTER {name} {t}\n".encode()
            else:
                line = bytes(rng.randrange(1, 256) for _ in range(rng.randint(1, 12))).replace(b"\n", b"?") + b"\n"
                # random bytes could accidentally be well-formed only if they contain two ':' and a known type
                if line.count(b":") >= 2:
                    line = line.replace(b":", b";")
                if line.strip() in (b"PROBE",):
                    line = b"?" + line
        # whitespace decoration that strip() must remove (only at the line ends)
        if req[0] != "BAD" and rng.random() < 0.15:
            line = rng.choice([b" ", b"\t", b""]) + line[:-1] + rng.choice([b" \n", b"\r\n", b"\t \n"])
        items.append((req, line))
    if items and rng.random() < 0.2:
        req, line = items[-1]
        items[-1] = (req, line.rstrip(b"\n")) if line.rstrip(b"\n").strip() else (req, line)
    return items, b"".join(l for _, l in items)


def oracle(items):
    """the property: abstract count machine over the abstract requests"""
    counts = {}
    outs = []
    for req, _ in items:
        if req[0] == "PROBE":
            outs.append([])
        elif req[0] == "BAD":
            outs.append([["report"]])
        else:
            k = (req[1], req[2])
            c = counts.get(k, 0)
            if req[0] == "REG":
                counts[k] = c + 1
                outs.append([])
            elif req[0] == "UNREG":
                if c == 0:
                    outs.append([["report"]])
                else:
                    counts[k] = 0
                    outs.append([])
            else:
                if c == 0:
                    outs.append([["report"]])
                elif c == 1:
                    counts[k] = 0
                    outs.append([["cleanup", k[0], k[1]]])
                else:
                    counts[k] = c - 1
                    outs.append([])
    left = sorted(k for k, c in counts.items() if c > 0)
    return outs, left


PROLOGUE = [["signal.signal", "SIGINT", "SIG_IGN"], ["signal.signal", "SIGTERM", "SIG_IGN"],
            ["signal.pthread_sigmask", "SIG_UNBLOCK", "_IGNORED_SIGNALS"]]


def check_property(items, events):
    """compare real events with the oracle; returns None or a description of the failure"""
    outs, left = oracle(items)
    if events[:len(PROLOGUE)] != PROLOGUE:
        return f"signal prologue differs: {events[:4]}"
    if not events or events[-1] != ["returned"]:
        return f"main() did not return normally: {events[-1:]}"
    body = events[len(PROLOGUE):-1]
    flat = [e for o in outs for e in o]
    if body[:len(flat)] != flat:
        # locate the first differing request
        pos = 0
        for i, o in enumerate(outs):
            if body[pos:pos + len(o)] != o:
                return (f"request #{i} {items[i][0]} line={items[i][1]!r}: expected {o}, "
                        f"tracker did {body[pos:pos + max(len(o), 1)]}")
            pos += len(o)
        return "request outputs differ"
    sweep = body[len(flat):]
    got = sorted((e[1], e[2]) for e in sweep if e[0] == "cleanup")
    if any(e[0] != "cleanup" for e in sweep):
        return f"non-cleanup event during the sweep: {sweep}"
    if got != left:
        return f"end-of-life sweep destroyed {got}, expected exactly {left}"
    seen_folder = False
    for e in sweep:
        if e[1] == "folder":
            seen_folder = True
        elif seen_folder:
            return f"a non-folder resource was destroyed after a folder: {sweep}"
    return None


# --------------------------------------------------------------------------- coq side
def coq_bytes(b):
    def printable(x):
        return all(32 <= c < 127 and c != 34 for c in x)
    if printable(b):
        return '"' + b.decode("ascii") + '"'
    if b.endswith(b"\n") and printable(b[:-1]):
        return '(ln "' + b[:-1].decode("ascii") + '")'
    return "(bsN [" + "; ".join(str(c) for c in b) + "]%N)"


def coq_event(e):
    if e[0] == "cleanup":
        return f'ECall {coq_bytes(e[1].encode("latin1"))} [{coq_bytes(e[2].encode("latin1"))}]'
    if e[0] == "report":
        return "EReport"
    if e[0].startswith("signal."):
        return f'ECall "{e[0]}" [{"; ".join(coq_bytes(x.encode()) for x in e[1:])}]'
    return 'ECall "<unexpected>" []'


def cases_file(cases):
    """cases: list of (lines, events-without-'returned')"""
    rows = []
    for lines, events in cases:
        ls = "[" + "; ".join(coq_bytes(l) for l in lines) + "]"
        es = "[" + "; ".join(coq_event(e) for e in events) + "]"
        rows.append(f"({ls}, {es})")
    return ("From Coq Require Import List String Ascii ZArith Bool.\n"
            "From LokyV Require Import Lib.PyLib Gen.Tracker.\nImport ListNotations.\nOpen Scope string_scope.\n"
            "Definition run (lines : list string) : list eff :=\n"
            "  snd (tracker_main (fun _ _ _ => None) lines false []).\n"
            "Definition cases : list (list string * list eff) :=\n [" + ";\n  ".join(rows) + "].\n"
            "Eval vm_compute in (mismatches_from (list_eqb eff_eqb) run cases 0).\n")


def split_lines(data):
    return io.BytesIO(data).readlines()


def distribution(all_items):
    d = {}
    for items in all_items:
        for req, _ in items:
            d[req[0]] = d.get(req[0], 0) + 1
    return d
