"""H16: _ReusablePoolExecutor._resize() posts its sentinels with a blocking call_queue.put(None) WHILE HOLDING the processes management
lock, and counts as alive the workers that have already announced their idle-time-out exit (they wait for the manager's hand-shake and
never read the call queue again).  When those are more than the queue has free slots (capacity 2 * cpu_count() + 1) the put blocks for
ever: the manager thread needs the same lock to reap them, nobody reads the queue, get_reusable_executor() never returns.
The window (workers announced, not yet reaped) is held open here by a done-callback that keeps the manager thread busy for 1.5 s;
LOKY_MAX_CPU_COUNT=1 makes the queue small (3 slots) so that 6 workers are enough.
   LOKY_MAX_CPU_COUNT=1 PYTHONPATH=<tree> python H16_real.py   -> exit 1 when the resize is still blocked after 20 s."""
import faulthandler, os, sys, threading, time

if __name__ == "__main__":
    os.environ.setdefault("LOKY_MAX_CPU_COUNT", "1")
    from loky import get_reusable_executor
    e = get_reusable_executor(max_workers=6, timeout=0.4)
    list(e.map(abs, range(12)))                         # all six workers are started and idle
    f = e.submit(abs, -1)
    f.add_done_callback(lambda _: time.sleep(1.5))      # runs in the manager thread: the exits announced meanwhile are not reaped yet
    time.sleep(1.0)                                     # > 0.4 s: every worker has announced its idle exit and waits for the hand-shake
    out = {}

    def shrink():
        t0 = time.time()
        get_reusable_executor(max_workers=1, timeout=0.4)
        out["s"] = round(time.time() - t0, 2)
    th = threading.Thread(target=shrink, daemon=True)
    th.start()
    th.join(20)
    print({"queue_slots": e._call_queue._maxsize, "resize_returned": not th.is_alive(), "after_s": out.get("s"),
           "registered_workers": len(e._processes)}, flush=True)
    if th.is_alive():
        faulthandler.dump_traceback(file=sys.stdout, all_threads=True)
    os._exit(1 if th.is_alive() else 0)
