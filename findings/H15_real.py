"""H15: a done-callback that submits follow-up work to the REUSABLE executor it came from deadlocks with a concurrent
get_reusable_executor() call that has to wait for the manager thread: _ReusablePoolExecutor.submit() takes _submit_resize_lock, which
is the factory lock _executor_lock itself; get_reusable_executor() holds that lock while (a) a shrinking _resize() polls until the
manager has reaped the worker it stopped, or (b) a replacement calls shutdown(wait=True) and joins the manager -- and the manager is
the thread that runs the callback.
   python H15_real.py shrink | replace    (PYTHONPATH=<tree>)   -> exit 1 and "returned: False" when it deadlocks."""
import os, sys, threading, time


def slow(x):
    time.sleep(x)
    return x


if __name__ == "__main__":
    from loky import get_reusable_executor
    mode = sys.argv[1]
    e = get_reusable_executor(max_workers=2, timeout=20)
    follow = []

    def cb(f):
        follow.append(e.submit(slow, 0.01))        # follow-up work, submitted by whoever completes the future: the manager thread
    f = e.submit(slow, 1.0)
    f.add_done_callback(cb)
    time.sleep(0.2)
    out = {}

    def other_thread():
        t0 = time.time()
        if mode == "shrink":
            get_reusable_executor(max_workers=1, timeout=20)
        else:
            get_reusable_executor(max_workers=2, timeout=21)      # other arguments: the previous executor is shut down (wait=True) first
        out["s"] = round(time.time() - t0, 2)
    th = threading.Thread(target=other_thread, daemon=True)
    th.start()
    th.join(15)
    print({"mode": mode, "get_reusable_executor_returned": not th.is_alive(), "after_s": out.get("s"), "future_done": f.done(),
           "follow_up_submitted": len(follow)}, flush=True)
    os._exit(0 if not th.is_alive() else 1)
