"""H17: shutdown(kill_workers=True) -- or a pool that breaks -- while the call queue's feeder thread is blocked writing a large task
into the full pipe: the workers are killed, nobody reads the pipe any more, but the parent still holds its own handle of the read end,
so the write never fails: the feeder thread, the queue, two descriptors and three named semaphores stay for ever, once per life cycle.
   PYTHONPATH=<tree> python H17_real.py big    (small = control)"""
import os, sys, threading, time, gc, glob
from loky import ProcessPoolExecutor

def slow(x, blob=None):
    time.sleep(x); return 0

def footprint():
    gc.collect()
    return {"fds": len(os.listdir("/proc/self/fd")), "threads": threading.active_count(),
            "sems": len([s for s in glob.glob("/dev/shm/sem.loky-*") if f"loky-{os.getpid()}-" in s]),
            "names": sorted(t.name for t in threading.enumerate())}

def cycle(big):
    e = ProcessPoolExecutor(2)
    blob = b"x" * (1 << 20) if big else b"x"
    fs = [e.submit(slow, 30, blob) for _ in range(6)]
    time.sleep(1.0)          # two tasks run, the feeder is writing the next big ones into a full pipe
    e.shutdown(wait=True, kill_workers=True)
    del e, fs
    time.sleep(0.5)

if __name__ == "__main__":
    big = sys.argv[1] == "big"
    cycle(big); a = footprint()
    for _ in range(4): cycle(big)
    b = footprint()
    print({"mode": sys.argv[1], "after_1": {k: a[k] for k in ("fds", "threads", "sems")}, "after_5": {k: b[k] for k in ("fds", "threads", "sems")}, "threads": b["names"]}, flush=True)
    os._exit(0)
