import json, os, sys, threading, time
def f(x): return x
if __name__ == "__main__":
    from loky import ProcessPoolExecutor
    hung = 0; cancelled = 0; n = int(sys.argv[1])
    for i in range(n):
        e = ProcessPoolExecutor(1)
        e.submit(f, 0).result(30)          # pool started, manager idle in wait()
        fut = e.submit(f, 1)
        ok = fut.cancel()
        cancelled += ok
        t = threading.Thread(target=lambda: e.shutdown(wait=True), daemon=True)
        t.start(); t.join(5)
        if t.is_alive():
            hung += 1
            print(json.dumps({"iteration": i, "cancel_returned": ok, "hung": True, "pending": len(e._pending_work_items),
                              "manager_alive": e._executor_manager_thread.is_alive() if e._executor_manager_thread else None}), flush=True)
            e.shutdown(wait=False, kill_workers=True)
            break
    print(json.dumps({"runs": i + 1, "cancelled": cancelled, "hung": hung}))
    os._exit(0)
