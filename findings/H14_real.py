"""H14: a future cancelled while it still waits in the executor's table makes the manager thread die of InvalidStateError
as soon as it has to fail the table (a worker died: terminate_broken; shutdown(kill_workers=True): flag_executor_shutting_down).
   python H14_real.py break   -> on the pinned source the futures after the cancelled one stay pending for ever, the workers are not killed
   python H14_real.py kill    -> on the pinned source shutdown(kill_workers=True) returns with 5 futures pending for ever and the worker alive
Run from any directory with PYTHONPATH=/repo."""
import json, os, signal, sys, time
from concurrent.futures import TimeoutError as TE


def slow(t):
    time.sleep(t)
    return t


if __name__ == "__main__":
    from loky import ProcessPoolExecutor
    mode = sys.argv[1]
    e = ProcessPoolExecutor(1)
    fs = [e.submit(slow, 1.0) for _ in range(6)]      # one runs, two sit in the call queue, three wait in the table
    time.sleep(0.3)
    cancelled = fs[-2].cancel()                        # still waiting in the table: the cancellation succeeds
    pids = list(e._processes)
    if mode == "break":
        os.kill(pids[0], signal.SIGKILL)
    else:
        t0 = time.time()
        e.shutdown(wait=True, kill_workers=True)
    out = []
    for f in fs:
        try:
            f.result(timeout=5); out.append("value")
        except TE:
            out.append("PENDING-FOR-EVER")
        except BaseException as ex:
            out.append(type(ex).__name__)
    alive = [p for p in pids if os.path.exists(f"/proc/{p}") and open(f"/proc/{p}/stat").read().split()[2] != "Z"]
    print(json.dumps({"mode": mode, "cancelled": cancelled, "futures": out, "manager_alive": e._executor_manager_thread is not None and e._executor_manager_thread.is_alive(),
                      "workers_alive": alive, "broken": e._flags.broken is not None}), flush=True)
    for p in alive:
        os.kill(p, signal.SIGKILL)
    os._exit(0)
