"""W3: the tracker's end-of-life sweep is aborted by its own warning when warnings are errors (-W error::UserWarning, inherited from
the process that starts the tracker) and ONE cleanup fails -- e.g. a name whose owner died between sem_unlink() and unregister() in
its finalizer: sem_unlink raises FileNotFoundError in the sweep, the handler's unguarded warnings.warn() raises, and every name
after it in the registry stays in /dev/shm for good.
   PYTHONPATH=<tree> python W3_real.py    -> exit 1 and the leaked names when it happens."""
import glob, json, os, subprocess, sys, time

CHILD = """
import gc, os, signal
import loky.backend.synchronize as sy
from loky.backend import get_context
ctx = get_context('loky')
first = ctx.Lock()
others = [ctx.Lock(), ctx.Semaphore(2), ctx.Event()]
real_unlink = sy.sem_unlink
def unlink_then_die(name):
    real_unlink(name)                      # the name is gone ...
    os.kill(os.getpid(), signal.SIGKILL)   # ... and the owner dies before it can tell the tracker
sy.sem_unlink = unlink_then_die
del first
gc.collect()
os._exit(3)
"""
res = {}
for label, flags in (("default", []), ("warnings_as_errors", ["-W", "error::UserWarning"])):
    p = subprocess.Popen([sys.executable] + flags + ["-c", CHILD], stderr=subprocess.DEVNULL, stdout=subprocess.DEVNULL, cwd="/")
    p.wait(60)
    mine = lambda: sorted(s for s in glob.glob("/dev/shm/sem.loky-*") if f"loky-{p.pid}-" in s)
    t0 = time.time()
    while mine() and time.time() - t0 < 15:
        time.sleep(0.1)
    left = mine()
    for s in left:
        os.unlink(s)
    res[label] = {"rc": p.returncode, "left": left}
print(json.dumps(res))
sys.exit(1 if any(r["left"] for r in res.values()) else 0)
