"""H21: descendants forked while kill_process_tree sweeps a worker's tree survive shutdown(kill_workers=True).
usage: PYTHONPATH=/repo /venv/bin/python findings/H21_real.py <psutil 0|1> <trials> <seconds between forks>
prints, per forced shutdown: children alive at the call, survivors among them (expected 0), survivors forked during the sweep."""
import sys
sys.argv = [sys.argv[0], "forkstorm", sys.argv[2] if len(sys.argv) > 2 else "2", sys.argv[1] if len(sys.argv) > 1 else "0", sys.argv[3] if len(sys.argv) > 3 else "0.02"]
import json, os, signal, subprocess, sys, time, warnings
warnings.simplefilter("ignore")

def alive(pid):
    try:
        os.kill(pid, 0)
    except OSError:
        return False
    try:
        return open(f"/proc/{pid}/stat").read().rsplit(")", 1)[1].split()[0] != "Z"
    except OSError:
        return False

def zombies_of_me():
    me = os.getpid(); z = []
    for d in os.listdir("/proc"):
        if d.isdigit():
            try:
                st = open(f"/proc/{d}/stat").read(); f = st[st.rindex(")") + 2:].split()
                if int(f[1]) == me and f[0] == "Z":
                    z.append(int(d))
            except (OSError, ValueError):
                pass
    return z

def tree_task(d, tag, nest):
    """runs in a worker: starts a grandchild subprocess, optionally a nested executor whose worker does the same, then never returns"""
    g = subprocess.Popen([sys.executable, "-c", "import time; time.sleep(600)"])
    pids = {"worker": os.getpid(), "grandchild": g.pid}
    # a second grandchild, started by a helper thread of the worker that stays alive: the kernel lists children per thread
    # (/proc/<pid>/task/<tid>/children), the parent pid of the child is the same
    import threading
    box = {}
    def helper():
        box["p"] = subprocess.Popen([sys.executable, "-c", "import time; time.sleep(600)"])
        time.sleep(600)
    threading.Thread(target=helper, daemon=True).start()
    t0 = time.time()
    while "p" not in box and time.time() - t0 < 10:
        time.sleep(0.01)
    if "p" in box:
        pids["grandchild_of_a_helper_thread"] = box["p"].pid
    if nest:
        from loky import ProcessPoolExecutor
        e = ProcessPoolExecutor(1)
        f = e.submit(tree_task, d, tag + "n", False)
        t0 = time.time()
        while not os.path.exists(os.path.join(d, tag + "n.json")) and time.time() - t0 < 30:
            time.sleep(0.02)
    with open(os.path.join(d, tag + ".json"), "w") as fh:
        json.dump(pids, fh)
    time.sleep(600)

def quick(x):
    return x

def die(how, v):
    if how == "exit":
        os._exit(v)
    try:
        signal.signal(v, signal.SIG_DFL)
    except (OSError, ValueError):
        pass
    os.kill(os.getpid(), v)
    time.sleep(600)

def forced(d, use_psutil, nest, pre_graceful):
    import loky.backend.utils as U
    if not use_psutil:
        U.psutil = None
    from loky import ProcessPoolExecutor
    from loky.process_executor import ShutdownExecutorError
    e = ProcessPoolExecutor(2)
    fs = [e.submit(tree_task, d, f"t{i}", nest and i == 0) for i in range(2)] + [e.submit(quick, i) for i in range(3)]
    t0 = time.time()
    want = 2 + (1 if nest else 0)
    while len([x for x in os.listdir(d) if x.endswith(".json")]) < want and time.time() - t0 < 60:
        time.sleep(0.02)
    pids = []
    for x in os.listdir(d):
        if x.endswith(".json"):
            pids += list(json.load(open(os.path.join(d, x))).values())
    if pre_graceful:
        e.shutdown(wait=False)
    t1 = time.time()
    import threading
    th = threading.Thread(target=lambda: e.shutdown(wait=True, kill_workers=True), daemon=True)
    th.start(); th.join(25)
    if th.is_alive():
        # the forced shutdown did not return: report it, then clean up by hand
        out = {"took_s": None, "hung": True, "pids": pids, "alive_after": [p for p in pids if alive(p)], "zombies": zombies_of_me(),
               "outcomes": [[f._state] for f in fs], "psutil": U.psutil is not None}
        for p in pids:
            try:
                os.kill(p, signal.SIGKILL)
            except OSError:
                pass
        print(json.dumps(out)); sys.stdout.flush()
        os._exit(0)
    took = time.time() - t1
    outcomes = []
    for f in fs:
        try:
            outcomes.append(["value", f.result(5)])
        except ShutdownExecutorError:
            outcomes.append(["ShutdownExecutorError"])
        except BaseException as ex:
            outcomes.append([type(ex).__name__])
    time.sleep(0.3)
    return {"took_s": round(took, 2), "pids": pids, "alive_after": [p for p in pids if alive(p)], "zombies": zombies_of_me(),
            "outcomes": outcomes, "psutil": U.psutil is not None}

def death(how, v, pending):
    from loky import ProcessPoolExecutor
    from loky.process_executor import TerminatedWorkerError, BrokenProcessPool
    e = ProcessPoolExecutor(2)
    list(e.map(quick, range(4)))
    workers = [p.pid for p in e._processes.values()]
    done = e.submit(quick, 41); done.result(30)
    fs = [e.submit(die, how, v)] + [e.submit(time.sleep, 0.3) for _ in range(pending)]
    res = []
    for f in fs:
        try:
            f.result(60); res.append(["value"])
        except TerminatedWorkerError as ex:
            res.append(["TerminatedWorkerError", str(ex)[-400:]])
        except BaseException as ex:
            res.append([type(ex).__name__, str(ex)[-200:]])
    try:
        e.submit(quick, 1); later = "accepted"
    except BaseException as ex:
        later = type(ex).__name__
    e.shutdown(wait=True)
    time.sleep(0.2)
    return {"how": [how, v], "results": res, "later_submit": later, "earlier_result": done.result(0),
            "alive_after": [p for p in workers if alive(p)], "zombies": zombies_of_me()}

def churn_task():
    """runs in a worker: keeps about 8 short-lived children around, for ever"""
    kids = []
    while True:
        pid = os.fork()
        if pid == 0:
            time.sleep(0.004)
            os._exit(0)
        kids.append(pid)
        if len(kids) >= 8:
            os.waitpid(kids.pop(0), 0)

def churn(trials, use_psutil):
    """forced shutdown of workers whose process trees change while they are being killed"""
    import threading
    import loky.backend.utils as U
    if not use_psutil:
        U.psutil = None
    from loky import ProcessPoolExecutor
    hung, took, survivors = 0, [], []
    for _ in range(trials):
        e = ProcessPoolExecutor(2)
        fs = [e.submit(churn_task) for _ in range(2)]
        time.sleep(0.5)
        pids = list(e._processes)
        th = threading.Thread(target=lambda: e.shutdown(wait=True, kill_workers=True), daemon=True)
        t0 = time.time(); th.start(); th.join(10)
        if th.is_alive():
            hung += 1
        else:
            took.append(round(time.time() - t0, 2))
        time.sleep(0.2)
        survivors += [p for p in pids if alive(p)]
        for p in pids:                       # clean up by hand whatever happened
            try:
                os.kill(p, signal.SIGKILL)
            except OSError:
                pass
        if th.is_alive():
            th.join(15)
    return {"trials": trials, "hung": hung, "max_took_s": max(took) if took else None, "workers_alive_after": survivors,
            "psutil": U.psutil is not None}

def storm_task(logpath, delay):
    """runs in a worker: forks a long-lived child every [delay] seconds, for ever, logging (pid, birth time) of each"""
    with open(logpath, "a") as log:
        while True:
            pid = os.fork()
            if pid == 0:
                try:
                    time.sleep(40)
                finally:
                    os._exit(0)
            log.write(f"{pid} {time.time()!r}\n"); log.flush()
            time.sleep(delay)

def forkstorm(d, trials, use_psutil, delay):
    """forced shutdown of workers that fork long-lived children while their tree is being swept: children that existed when the call
    was made must be gone; children forked during the sweep are counted separately (Model/KillTree.v: they escape)"""
    import threading
    import loky.backend.utils as U
    if not use_psutil:
        U.psutil = None
    from loky import ProcessPoolExecutor
    out = []
    for i in range(trials):
        logs = [os.path.join(d, f"storm{i}_{k}.log") for k in range(2)]
        e = ProcessPoolExecutor(2)
        fs = [e.submit(storm_task, lg, delay) for lg in logs]
        time.sleep(0.4)
        pids = list(e._processes)
        th = threading.Thread(target=lambda: e.shutdown(wait=True, kill_workers=True), daemon=True)
        t_call = time.time(); th.start(); th.join(30)
        hung = th.is_alive()
        t_ret = time.time()
        time.sleep(0.3)
        born = []
        for lg in logs:
            try:
                for line in open(lg):
                    a = line.split()
                    if len(a) == 2:
                        born.append((int(a[0]), float(a[1])))
            except OSError:
                pass
        left = [(p, t) for p, t in born if alive(p)]
        old = [p for p, t in left if t < t_call - 0.01]
        during = [p for p, t in left if t >= t_call - 0.01]
        out.append({"children_at_the_call": sum(1 for p, t in born if t < t_call), "old_survivors": len(old), "survivors_forked_during_the_sweep": len(during),
                    "workers_alive_after": [p for p in pids if alive(p)], "hung": hung, "took_s": round(t_ret - t_call, 2)})
        for p, _ in left:
            try:
                os.kill(p, signal.SIGKILL)
            except OSError:
                pass
        for p in pids:
            try:
                os.kill(p, signal.SIGKILL)
            except OSError:
                pass
        if hung:
            th.join(15)
    return {"trials": out, "psutil": U.psutil is not None, "delay": delay}

def sleeper(t):
    time.sleep(t); return t

def globaljoin(task_s):
    """thread A is inside ex1.shutdown(wait=True) (its task needs task_s more seconds); the main thread then calls
    ex2.shutdown(kill_workers=True): when are ex2's workers dead and its future failed (effect), when does the call return?"""
    import threading
    from loky import ProcessPoolExecutor
    ex1 = ProcessPoolExecutor(1); f1 = ex1.submit(sleeper, task_s)
    ex2 = ProcessPoolExecutor(1); f2 = ex2.submit(sleeper, 600)
    time.sleep(0.8)
    pids2 = list(ex2._processes)
    tha = threading.Thread(target=lambda: ex1.shutdown(wait=True), daemon=True); tha.start()
    time.sleep(0.3)
    eff = {}
    def watch(t0):
        while time.time() - t0 < 30:
            if "future" not in eff and f2.done():
                eff["future"] = round(time.time() - t0, 2)
            if "workers" not in eff and not any(alive(p) for p in pids2):
                eff["workers"] = round(time.time() - t0, 2)
            if len(eff) == 2:
                return
            time.sleep(0.01)
    t0 = time.time()
    thw = threading.Thread(target=watch, args=(t0,), daemon=True); thw.start()
    thb = threading.Thread(target=lambda: ex2.shutdown(kill_workers=True), daemon=True); thb.start()
    thb.join(30)
    call_s = round(time.time() - t0, 2) if not thb.is_alive() else None
    thw.join(5); tha.join(30)
    try:
        outcome = type(f2.exception(0)).__name__
    except BaseException as e:
        outcome = "unresolved:" + type(e).__name__
    for p in pids2 + list(getattr(ex1, "_processes", None) or []):
        try:
            os.kill(p, signal.SIGKILL)
        except OSError:
            pass
    return {"other_task_s": task_s, "call_returned_after_s": call_s, "future_failed_after_s": eff.get("future"), "workers_dead_after_s": eff.get("workers"),
            "future_outcome": outcome, "other_result": f1.result(5) if f1.done() else None}

def churn_death(trials):
    """a pool breaks (one worker kills itself) while the other worker's process tree keeps changing: everybody must be killed and reaped"""
    from loky import ProcessPoolExecutor
    survivors, unresolved, slow = [], 0, 0
    for _ in range(trials):
        e = ProcessPoolExecutor(2)
        f1 = e.submit(churn_task)
        time.sleep(0.4)
        pids = list(e._processes)
        t0 = time.time()
        f2 = e.submit(die, "signal", 9)
        for f in (f1, f2):
            try:
                f.result(20)
            except BaseException as ex:
                if type(ex).__name__ not in ("TerminatedWorkerError", "BrokenProcessPool"):
                    unresolved += 1
        t1 = time.time()
        import threading
        th = threading.Thread(target=lambda: e.shutdown(wait=True), daemon=True); th.start(); th.join(10)
        if th.is_alive() or t1 - t0 > 15:
            slow += 1
        time.sleep(0.3)
        survivors += [p for p in pids if alive(p)]
        for p in pids:
            try:
                os.kill(p, signal.SIGKILL)
            except OSError:
                pass
        if th.is_alive():
            th.join(15)
    return {"trials": trials, "workers_alive_after": survivors, "unresolved": unresolved, "slow_or_hung": slow}

if __name__ == "__main__":
    import tempfile
    mode = sys.argv[1]
    d = tempfile.mkdtemp(prefix="lokyv_kill_")
    if mode == "churn_death":
        out = churn_death(int(sys.argv[2]))
    elif mode == "churn":
        out = churn(int(sys.argv[2]), sys.argv[3] == "1")
    elif mode == "globaljoin":
        out = globaljoin(float(sys.argv[2]))
    elif mode == "forkstorm":
        out = forkstorm(d, int(sys.argv[2]), sys.argv[3] == "1", float(sys.argv[4]))
    elif mode == "forced":
        out = forced(d, sys.argv[2] == "1", sys.argv[3] == "1", sys.argv[4] == "1")
    else:
        out = death(sys.argv[2], int(sys.argv[3]), int(sys.argv[4]))
    import shutil; shutil.rmtree(d, ignore_errors=True)
    print(json.dumps(out))
