"""H18: the wake-up pipe of the manager thread can fill up (every submit / shutdown writes one 4-byte message, 16384 fit); a writer
blocks in _ThreadWakeup.wakeup() WHILE HOLDING the executor's shutdown lock until the manager drains the pipe -- and on its way to the
next drain the manager itself takes that lock when it finds the executor shutting down (flag_executor_shutting_down ->
flag_as_shutting_down).  History: the manager is kept busy by one slow done-callback while exactly 16384 tasks are submitted; then
shutdown(wait=False): the flag is set, the wake-up write blocks on the full pipe with the lock held; the callback returns, the
manager sees the flag and waits for the lock for ever.
   PYTHONPATH=<tree> python H18_real.py    -> exit 1 when shutdown() is still blocked 20 s after the callback returned."""
import faulthandler, os, sys, threading, time

if __name__ == "__main__":
    from loky import ProcessPoolExecutor
    e = ProcessPoolExecutor(2)
    e.submit(abs, 0).result(60)
    gate, inside = threading.Event(), threading.Event()
    f = e.submit(abs, -1)
    f.add_done_callback(lambda _: (inside.set(), gate.wait(120)))
    inside.wait(60)                      # the manager thread is now inside the callback
    N = 16384
    fs = [e.submit(abs, i) for i in range(N)]       # N wake-up messages: the pipe is exactly full
    out = {}

    def stop():
        e.shutdown(wait=False)
        out["shutdown_returned"] = True
    t = threading.Thread(target=stop, daemon=True)
    t.start()
    time.sleep(1.0)                      # shutdown() has set the flag and is writing its wake-up message
    gate.set()                           # the callback returns
    t.join(20)
    done = sum(1 for x in fs if x.done())
    print({"submitted_while_manager_busy": N, "shutdown_returned": not t.is_alive(), "futures_done": done}, flush=True)
    if t.is_alive():
        faulthandler.dump_traceback(file=sys.stdout, all_threads=True)
    for p in list(e._processes.values()):
        try:
            os.kill(p.pid, 9)
        except OSError:
            pass
    os._exit(1 if t.is_alive() else 0)
