import os, sys, time, json
def die(x): os._exit(3)
if __name__ == "__main__":
    from loky import ProcessPoolExecutor
    n = int(sys.argv[1]); hung = 0; outcomes = {}
    for i in range(n):
        e = ProcessPoolExecutor(1, timeout=0.2)
        e.submit(int, 1).result(30)
        time.sleep(0.8)                      # the only worker idles out and is reaped
        f = e.submit(die, 0)                 # re-spawns a worker, which dies running the task
        t0 = time.time()
        try:
            f.result(10); o = "value"
        except BaseException as ex:
            o = type(ex).__name__
        outcomes[o] = outcomes.get(o, 0) + 1
        if o == "TimeoutError":
            hung += 1
            print(json.dumps({"iteration": i, "outcome": o, "waited_s": round(time.time() - t0, 1), "procs": {k: v.exitcode for k, v in e._processes.items()},
                              "broken": e._flags.broken is not None, "manager_alive": e._executor_manager_thread.is_alive()}), flush=True)
        e.shutdown(wait=False, kill_workers=True)
    print(json.dumps({"runs": n, "outcomes": outcomes}))
    os._exit(0)
