"""H19: the call queue of the reusable executor is created once with 2 * cpu_count() + 1 slots; the manager thread fills it and goes to
sleep, and nothing wakes it when a worker takes an item out.  With more workers than slots (an oversubscribed pool: here 6 workers
where cpu_count() is 1, 3 slots) only as many long tasks as there are slots start; the others wait for the first RESULT although
healthy idle workers are registered.
   LOKY_MAX_CPU_COUNT=1 PYTHONPATH=<tree> python H19_real.py   -> exit 1: 3 of 6 long tasks running after 1.5 s (6 s in total instead of 3)."""
import os, sys, time, tempfile, glob
os.environ.setdefault("LOKY_MAX_CPU_COUNT", "1")
from loky import get_reusable_executor

def task(d, i):
    open(os.path.join(d, f"start{i}"), "w").close()
    time.sleep(3.0)
    return i

if __name__ == "__main__":
    d = tempfile.mkdtemp()
    e = get_reusable_executor(max_workers=6, timeout=30)
    list(e.map(abs, range(12)))          # all six workers are up
    t0 = time.time()
    fs = [e.submit(task, d, i) for i in range(6)]
    time.sleep(1.5)
    started = len(glob.glob(os.path.join(d, "start*")))
    print({"queue_slots": e._call_queue._maxsize, "workers": len(e._processes), "long_tasks_running_after_1.5s": started}, flush=True)
    [f.result(60) for f in fs]
    print({"all_done_after_s": round(time.time() - t0, 1)}, flush=True)
    e.shutdown()
    os._exit(0 if started == 6 else 1)
