#!/venv/bin/python
"""lib/refresh_replays.py [count [family ...]]  (ONLY_FINDINGS=H12,H16 restricts the search): for every KNOWN finding whose signature is produced by the simulation, find a schedule on /repo's current
tree that shows it, store it as findings/<ID>_sim_replay.json (plan, seed, choices) and check that replaying it reproduces the signature.
(Recorded schedules name the actor chosen at every step, so a replay only applies to the tree it was recorded on: run this after a fix
commit in /repo.)  The replays of FIXED findings are kept as recorded on their pre-repair trees."""
import json
import os
import re
import subprocess
import sys
import tempfile

VERIF = os.path.dirname(os.path.dirname(os.path.abspath(__file__)))
FAMILIES = ["satreuse", "cbreuse", "growshrink", "shutdown", "callback", "excs", "timeout", "kill", "latekill", "fatal", "resize", "reuse", "full", "plain", "mix", "idleshrink"]


def main():
    count = int(sys.argv[1]) if len(sys.argv) > 1 else 400
    fams = sys.argv[2:] or FAMILIES
    only = os.environ.get("ONLY_FINDINGS", "").split(",") if os.environ.get("ONLY_FINDINGS") else None
    kf = [f for f in json.load(open(os.path.join(VERIF, "known_findings.json")))["findings"] if f.get("status") == "known" and f.get("signature_regex")]
    want = {f["id"]: re.compile(f["signature_regex"]) for f in kf if only is None or f["id"] in only}
    found = {}
    with tempfile.TemporaryDirectory(prefix="lokyv_rr_") as d:
        for fam in fams:
            if len(found) == len(want):
                break
            out = os.path.join(d, fam + ".json")
            r = subprocess.run(["/venv/bin/python", os.path.join(VERIF, "corr", "sim", "batch.py"), fam, os.environ.get("SEED0", "0"), str(count), out],
                               stdout=subprocess.DEVNULL, stderr=subprocess.DEVNULL, stdin=subprocess.DEVNULL, env=dict(os.environ, PYTHONHASHSEED="0"), start_new_session=True)
            if not os.path.exists(out):
                print(f"family {fam}: no output (rc {r.returncode})")
                continue
            for rec in json.load(open(out))["runs"]:
                for a in rec.get("anomalies", []):
                    for fid, rx in want.items():
                        if fid not in found and rx.search(a.get("sig", "")) and rec.get("choices"):
                            found[fid] = (fam, rec, a["sig"])
        for fid, (fam, rec, sig) in sorted(found.items()):
            path = os.path.join(VERIF, "findings", f"{fid}_sim_replay.json")
            json.dump({"finding": fid, "family": fam, "signature": sig, "seed": rec["seed"], "plan": rec["plan"], "choices": rec["choices"],
                       "recorded_on": subprocess.run(["git", "-C", os.environ.get("VERIF_REPO", "/repo"), "rev-parse", "--short", "HEAD"], stdout=subprocess.PIPE, text=True).stdout.strip()},
                      open(path, "w"))
            rr = subprocess.run(["/venv/bin/python", os.path.join(VERIF, "corr", "sim", "batch.py"), "--replay", path], stdout=subprocess.PIPE, stderr=subprocess.DEVNULL,
                                text=True, env=dict(os.environ, PYTHONHASHSEED="0"), start_new_session=True)
            try:
                got = json.loads(rr.stdout.strip().splitlines()[-1])
                ok = any(want[fid].search(a.get("sig", "")) for a in got["anomalies"])
            except (ValueError, IndexError):
                ok = False
            print(f"{fid}: family {fam}, seed {rec['seed']}: {sig[:100]} -- replay reproduces: {ok}")
    for fid in want:
        if fid not in found:
            print(f"{fid}: not produced by the simulation families searched (real-process or model finding)")


if __name__ == "__main__":
    main()
