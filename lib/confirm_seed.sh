#!/bin/bash
# lib/confirm_seed.sh <ID> <worktree>: copy the sub-agent's deliverables to seeded/<ID>, run its demo on a copy of /repo's HEAD with and
# without the patch (both outside the worktree), print both exit codes
set -u
ID=$1; WT=$2; D=/tmp/cf_$ID
mkdir -p /verif/seeded/$ID && cp $WT/_out/patch.diff $WT/_out/meta.json /verif/seeded/$ID/ && cp $WT/_out/demo.py /verif/seeded/$ID/demo.py
for f in $WT/_out/*; do case "$f" in *.py|*.sh|*.txt) cp -n "$f" /verif/seeded/$ID/ 2>/dev/null;; esac; done
rm -rf $D && mkdir -p $D/orig $D/chg
git -C /repo archive HEAD loky | tar -x -C $D/orig
git -C /repo archive HEAD loky | tar -x -C $D/chg
(cd $D/chg && patch -p1 -s < /verif/seeded/$ID/patch.diff) || { echo "PATCH DOES NOT APPLY"; exit 2; }
cp /verif/seeded/$ID/*.py $D/ 2>/dev/null
for t in orig chg; do
  (cd /tmp && PYTHONPATH=$D/$t setsid -w timeout -s KILL ${3:-240} /venv/bin/python $D/demo.py > $D/out_$t.txt 2>&1 < /dev/null; echo "$ID $t rc=$?"; grep -v "^\[" $D/out_$t.txt | tail -n 4 | cut -c1-220)
done
pkill -KILL -f "[l]oky.backend.popen_loky_posix.*cf_$ID" 2>/dev/null
rm -rf $D
