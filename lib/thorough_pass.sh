#!/bin/bash
# lib/thorough_pass.sh <seed> [ids...]: every check's thorough tier with one seed, on $VERIF_REPO (default /repo); one summary line each
seed=${1:-5}; shift
ids=${@:-C01 C02 C03 C04 C05 C06 C07 C08 C09 C10 C11 C12 C13 C14 C15 C16 C17 C18 C19 C20}
./check --setup > setup.log 2>&1 || { echo "setup failed"; tail -5 setup.log; exit 1; }
for c in $ids; do
  VERIF_SEED=$seed ./check $c --tier thorough > thorough_$c.log 2>&1
  echo "$c rc=$? $(grep -c '^VIOLATION' thorough_$c.log) violations; $(tail -n 1 thorough_$c.log | cut -c1-100)"
  grep '^VIOLATION' thorough_$c.log | cut -c1-300
done
