"""Shared machinery of the /verif checks: translator run, Coq build, audit, evidence, verdicts."""
import fcntl
import glob
import hashlib
import json
import os
import re
import subprocess
import sys
import time

VERIF = os.path.dirname(os.path.dirname(os.path.abspath(__file__)))
REPO = os.environ.get("VERIF_REPO", "/repo")
COQ = os.path.join(VERIF, "coq")
PY = "/venv/bin/python"

FORBIDDEN = re.compile(
    r"\b(Admitted|admit|Axiom|Parameter|Conjecture|Unset\s+Guard|bypass_check|type-in-type|"
    r"impredicative-set|Admit\s+Obligations|native_compute)\b")
ALLOWED_AXIOMS = set()   # none needed so far; stdlib axioms would be listed here and in DESIGN.md

TRUSTED_BASE = [
    "Coq 8.16.1 kernel (coqc); vm_compute used for Examples, finite sweeps and case evaluation; native_compute unused",
    "axioms: none (every Props/*.v theorem reports 'Closed under the global context')",
    "translator /verif/tr (Python ast -> Gallina subset semantics; unit tables incl. typing of parameters and the oracle boundary)",
    "coq/Lib/PyLib.v as a model of the CPython primitives it mirrors (validated differentially)",
    "correspondence harness (/verif/corr): generators, recorders, canonicalisation",
    "CPython, the Linux kernel, glibc semaphores, psutil, cloudpickle: modelled as oracles, not verified",
]


class Ctx:
    def __init__(self, prop, tier, seed):
        self.prop = prop
        self.tier = tier
        self.seed = seed
        self.t0 = time.time()
        self.violations = []     # (summary, replay_path, no_input_found)
        self.known = []          # KNOWN-FINDING lines
        self.notes = []
        self.coverage = {}
        self.assumptions = []
        self.level = "proof"

    def log(self, *a):
        print(f"[{self.prop}]", *a, flush=True)


# --------------------------------------------------------------------------- locking
class BuildLock:
    def __enter__(self):
        os.makedirs(COQ, exist_ok=True)
        self.f = open(os.path.join(COQ, ".lock"), "w")
        fcntl.flock(self.f, fcntl.LOCK_EX)
        return self

    def __exit__(self, *a):
        fcntl.flock(self.f, fcntl.LOCK_UN)
        self.f.close()


# --------------------------------------------------------------------------- translator
def regenerate(only=None):
    sys.path.insert(0, os.path.join(VERIF, "tr"))
    import importlib
    import gen as trgen
    importlib.reload(trgen)
    return trgen.main(REPO, only=only)


# --------------------------------------------------------------------------- coq build
def coq_files():
    out = []
    for d in ("Lib", "Gen", "Spec", "Model", "Char", "Proofs", "Props"):
        out += sorted(glob.glob(os.path.join(COQ, d, "*.v")))
    return [os.path.relpath(p, COQ) for p in out]


def write_project():
    files = coq_files()
    text = "-R . LokyV\n" + "\n".join(files) + "\n"
    p = os.path.join(COQ, "_CoqProject")
    old = open(p).read() if os.path.exists(p) else None
    if old != text or not os.path.exists(os.path.join(COQ, "Makefile")):
        with open(p, "w") as f:
            f.write(text)
        subprocess.run(["coq_makefile", "-f", "_CoqProject", "-o", "Makefile"], cwd=COQ,
                       check=True, stdout=subprocess.DEVNULL, stderr=subprocess.DEVNULL)
    return files


def coq_make(targets, timeout=1500, jobs=8):
    """make the given .vo targets; returns (ok, log)"""
    write_project()
    cmd = ["timeout", str(timeout), "make", f"-j{jobs}"] + targets
    r = subprocess.run(cmd, cwd=COQ, stdout=subprocess.PIPE, stderr=subprocess.STDOUT, text=True)
    return r.returncode == 0, r.stdout


def first_coq_error(log):
    """(file, line, message, enclosing lemma) of the first error in a make log"""
    m = re.search(r'File "\./([^"]+)", line (\d+), characters [^\n]*\n(Error:.*?)(?:\n\n|\nmake|\Z)', log, re.S)
    if not m:
        tail = log.strip().splitlines()[-8:]
        return None, None, "\n".join(tail), None
    f, line, msg = m.group(1), int(m.group(2)), m.group(3).strip()
    lemma = None
    try:
        src = open(os.path.join(COQ, f)).read().splitlines()
        for i in range(min(line, len(src)) - 1, -1, -1):
            mm = re.match(r"\s*(Lemma|Theorem|Corollary|Example|Definition|Fixpoint|Goal|Fact)\s+(\w+)", src[i])
            if mm:
                lemma = mm.group(2)
                break
    except OSError:
        pass
    return f, line, msg[:600], lemma


def cone(prop_file):
    """.v files the property file depends on (transitively), via coqdep"""
    write_project()
    r = subprocess.run(["coqdep", "-f", "_CoqProject"], cwd=COQ, stdout=subprocess.PIPE,
                       stderr=subprocess.DEVNULL, text=True)
    deps = {}
    for line in r.stdout.splitlines():
        if ":" not in line:
            continue
        lhs, rhs = line.split(":", 1)
        tgt = [t for t in lhs.split() if t.endswith(".vo")]
        if not tgt:
            continue
        deps[tgt[0]] = [d for d in rhs.split() if d.endswith(".vo")]
    seen = set()
    stack = [prop_file.replace(".v", ".vo")]
    while stack:
        t = stack.pop()
        if t in seen:
            continue
        seen.add(t)
        stack += deps.get(t, [])
    return sorted(s[:-1] for s in seen)   # .vo -> .v


def audit(files):
    """forbidden vernacular anywhere in the cone (comments stripped)"""
    bad = []
    for f in files:
        p = os.path.join(COQ, f)
        if not os.path.exists(p):
            continue
        txt = open(p).read()
        txt = re.sub(r"\(\*.*?\*\)", "", txt, flags=re.S)
        for m in FORBIDDEN.finditer(txt):
            bad.append(f"{f}: {m.group(0)}")
    return bad


def count_obligations(files):
    n = 0
    for f in files:
        p = os.path.join(COQ, f)
        if os.path.exists(p):
            n += len(re.findall(r"\bQed\.", open(p).read()))
    return n


def print_assumptions(prop_file):
    """recompile the property file alone to read its Print Assumptions output"""
    r = subprocess.run(["timeout", "300", "coqc", "-R", ".", "LokyV", prop_file], cwd=COQ,
                       stdout=subprocess.PIPE, stderr=subprocess.STDOUT, text=True)
    if r.returncode != 0:
        return None, r.stdout
    closed = r.stdout.count("Closed under the global context")
    axioms = re.findall(r"^Axioms:\n((?:.+\n)+)", r.stdout, re.M)
    names = []
    for blk in axioms:
        for line in blk.splitlines():
            mm = re.match(r"(\S+)\s*:", line)
            if mm:
                names.append(mm.group(1))
    n_thm = len(re.findall(r"^\s*Print Assumptions", open(os.path.join(COQ, prop_file)).read(), re.M))
    return {"theorems": n_thm, "closed": closed, "axioms": sorted(set(names))}, r.stdout


def coq_eval(name, text, timeout=600):
    """compile a scratch Cases file; returns (ok, stdout)"""
    d = os.path.join(COQ, "Cases")
    os.makedirs(d, exist_ok=True)
    p = os.path.join(d, name + ".v")
    with open(p, "w") as f:
        f.write(text)
    r = subprocess.run(["timeout", str(timeout), "coqc", "-R", ".", "LokyV", os.path.join("Cases", name + ".v")],
                       cwd=COQ, stdout=subprocess.PIPE, stderr=subprocess.STDOUT, text=True)
    for ext in (".vo", ".glob", ".vok", ".vos", ".aux"):
        q = os.path.join(d, name + ext)
        if os.path.exists(q):
            os.unlink(q)
    aux = os.path.join(d, "." + name + ".aux")
    if os.path.exists(aux):
        os.unlink(aux)
    if r.returncode == 0 and os.path.exists(p):
        os.unlink(p)          # kept only when the evaluation failed (for inspection)
    return r.returncode == 0, r.stdout


def prove(ctx, prop_file, gen_units):
    """steps 1-3 of the driver: regenerate, build the cone, audit. Returns dict with ok flag."""
    res = {"ok": False}
    with BuildLock():
        rep = regenerate(only=gen_units)
        res["gen"] = rep
        refused = {k: v["refused"] for k, v in rep.items() if not v["ok"]}
        if refused:
            res["broken"] = {"kind": "translator-refused", "units": refused}
            ctx.log("translator refused:", refused)
            return res
        ok, log = coq_make([prop_file.replace(".v", ".vo")])
        if not ok:
            f, line, msg, lemma = first_coq_error(log)
            res["broken"] = {"kind": "proof-obligation", "file": f, "line": line, "lemma": lemma, "error": msg}
            ctx.log(f"proof obligation failed: {f}:{line} ({lemma})")
            return res
        files = cone(prop_file)
        bad = audit(files)
        if bad:
            res["broken"] = {"kind": "audit", "found": bad}
            return res
        pa, out = print_assumptions(prop_file)
        if pa is None:
            res["broken"] = {"kind": "proof-obligation", "file": prop_file, "error": out[-600:]}
            return res
        extra = [a for a in pa["axioms"] if a not in ALLOWED_AXIOMS]
        if extra or pa["closed"] + (1 if pa["axioms"] else 0) < pa["theorems"]:
            res["broken"] = {"kind": "axioms", "found": pa}
            return res
        res.update(ok=True, files=files, assumptions=pa, obligations=count_obligations(files))
        return res


def ensure_built(gen_units, targets):
    """regenerate the given units and build the given .vo files (for in-check evaluations that run before the property's own build);
    returns None when ready, else a short reason (translator refusal / build failure: both are reported by the proof step itself)"""
    with BuildLock():
        rep = regenerate(only=gen_units)
        refused = {k: v["refused"] for k, v in rep.items() if not v["ok"]}
        if refused:
            return "translator refused: " + "; ".join(f"{k}: {v[:120]}" for k, v in refused.items())
        ok, log = coq_make(targets)
        if not ok:
            f, line, msg, lemma = first_coq_error(log)
            return f"build failed: {f}:{line} {msg[:160]}"
    return None


# --------------------------------------------------------------------------- verdict / evidence
def known_findings():
    p = os.path.join(VERIF, "known_findings.json")
    if not os.path.exists(p):
        return []
    return json.load(open(p)).get("findings", [])


def write_replay(ctx, name, payload):
    d = os.path.join(VERIF, "replays")
    os.makedirs(d, exist_ok=True)
    p = os.path.join(d, f"{ctx.prop}_{name}.json")
    with open(p, "w") as f:
        json.dump(payload, f, indent=1, default=str)
    return p


def finish(ctx, assumptions=None):
    cov = ctx.coverage
    if cov.get("discharged") == 0:
        # the proof did not check on this tree: report the exploration counts only
        cov["proof_checked"] = False
        cov.pop("discharged", None)
        cov.pop("obligations", None)
    ev = {
        "property_id": ctx.prop,
        "tier": ctx.tier,
        "seed": ctx.seed,
        "level": ctx.level,
        "coverage": cov,
        "assumptions": assumptions or [],
        "wall_s": round(time.time() - ctx.t0, 2),
        "violations": len(ctx.violations),
    }
    os.makedirs(os.path.join(VERIF, "evidence"), exist_ok=True)
    with open(os.path.join(VERIF, "evidence", ctx.prop + ".json"), "w") as f:
        json.dump(ev, f, indent=1, default=str)
    for k in ctx.known:
        print(f"KNOWN-FINDING: property={ctx.prop} {k}")
    # every listed finding of this property gets its line, also when this run's sample of schedules / scenarios did not reach it
    seen_ids = {str(k).split(" ", 1)[0] for k in ctx.known}
    for f in known_findings():
        if f.get("status") == "known" and ctx.prop in f.get("properties", []) and f["id"] not in seen_ids:
            print(f"KNOWN-FINDING: property={ctx.prop} {f['id']} {f['title'][:300]} (not reached by this run's sample; replay: {f.get('replay', 'see known_findings.json')})")
    for summary, replay, noinput in ctx.violations:
        tail = " no-failing-input-found" if noinput else ""
        print(f"VIOLATION property={ctx.prop} replay={replay} {summary}{tail}")
    if ctx.violations:
        return 1
    print(f"[{ctx.prop}] OK ({ev['wall_s']} s)")
    return 0


def sha(s):
    return hashlib.sha256(s.encode() if isinstance(s, str) else s).hexdigest()[:12]
