"""./check --setup : build the whole framework from files on disk (offline)."""
import sys

import vlib


def main():
    with vlib.BuildLock():
        rep = vlib.regenerate()
        bad = {k: v for k, v in rep.items() if not v["ok"]}
        if bad:
            print("translator refused on the pinned tree:", bad)
            return 1
        files = vlib.write_project()
        ok, log = vlib.coq_make([f.replace(".v", ".vo") for f in files], timeout=3000, jobs=16)
        if not ok:
            print(log[-3000:])
            return 1
    print(f"setup ok: {len(files)} Coq files built")
    return 0


if __name__ == "__main__":
    sys.exit(main())
