#!/bin/bash
# stage_mut.sh <ID> <worktree>: confirm a seeded change's demo on /repo and on the changed worktree from a neutral directory,
# and copy patch.diff / demo / meta.json into /tmp/stage_<ID> (moved to /verif/seeded/<ID> by hand once confirmed)
ID=$1; WT=$2
S=/tmp/stage_$ID; rm -rf $S; mkdir -p $S
git -C $WT diff -- loky > $S/patch.diff
DEMO=$(ls $WT/_out/demo.py $WT/demo*.py 2>/dev/null | head -1)
META=$(ls $WT/_out/meta.json $WT/meta.json 2>/dev/null | head -1)
cp $DEMO $S/demo; cp $META $S/meta.json
cd $S
cp demo demo.py
PYTHONPATH=/repo setsid -w timeout -s KILL 300 /venv/bin/python demo.py > orig.txt 2>&1; echo "orig rc=$? $(grep -v '^\[DEBUG' orig.txt | tail -1 | cut -c1-150)"
PYTHONPATH=$WT setsid -w timeout -s KILL 300 /venv/bin/python demo.py > mut.txt 2>&1; echo "mut rc=$? $(grep -v '^\[DEBUG' mut.txt | tail -1 | cut -c1-200)"
wc -l patch.diff
