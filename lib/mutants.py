#!/venv/bin/python
"""lib/mutants.py [ids...]: apply each seeded change to /repo, run the quick check of its property, undo, and write seeded/RESULTS.json.
Never leaves /repo modified (git checkout -- . after each)."""
import json
import os
import subprocess
import sys
import time

VERIF = os.path.dirname(os.path.dirname(os.path.abspath(__file__)))
REPO = "/repo"


def main():
    ids = sys.argv[1:] or sorted(d for d in os.listdir(os.path.join(VERIF, "seeded")) if not d.startswith("_") and os.path.isdir(os.path.join(VERIF, "seeded", d)))
    out = {}
    assert subprocess.run(["git", "-C", REPO, "status", "--porcelain"], capture_output=True, text=True).stdout.strip() == "", "/repo is dirty"
    for m in ids:
        prop = m.split("_")[0]
        patch = os.path.join(VERIF, "seeded", m, "patch.diff")
        r = subprocess.run(["git", "-C", REPO, "apply", patch], capture_output=True, text=True)
        if r.returncode != 0:
            out[m] = {"applies": False, "error": r.stderr[-300:]}
            continue
        t0 = time.time()
        evp = os.path.join(VERIF, "evidence", prop + ".json")
        saved = open(evp).read() if os.path.exists(evp) else None      # evidence must describe runs on /repo itself, not on a seeded change
        try:
            c = subprocess.run([os.path.join(VERIF, "check"), prop, "--tier", "quick"], capture_output=True, text=True, timeout=1800, cwd=VERIF)
            lines = [l for l in c.stdout.splitlines() if l.startswith("VIOLATION")]
            concrete = [l for l in lines if not l.rstrip().endswith("no-failing-input-found")]
            proof = [l for l in (c.stdout + c.stderr).splitlines() if "proof obligation failed" in l or "translator refused" in l]
            out[m] = {"applies": True, "exit": c.returncode, "violations": len(lines), "with_failing_input": len(concrete),
                      "first": (concrete or lines or [""])[0][:300], "proof_or_translator": (proof or [""])[0][:200],
                      "wall_s": round(time.time() - t0, 1)}
        finally:
            subprocess.run(["git", "-C", REPO, "checkout", "--", "."], check=True)
            if saved is not None:
                open(evp, "w").write(saved)
        print(m, json.dumps(out[m])[:400], flush=True)
    subprocess.run([os.path.join(VERIF, "check"), "--setup"], capture_output=True, cwd=VERIF)
    p = os.path.join(VERIF, "seeded", "RESULTS.json")
    old = json.load(open(p)) if os.path.exists(p) else {}
    old.update(out)
    json.dump(old, open(p, "w"), indent=1, sort_keys=True)


if __name__ == "__main__":
    main()
