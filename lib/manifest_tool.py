#!/usr/bin/env python3
"""manifest_tool.py add <ID> <category> <engine> <technique> <text> <note>  — keeps MANIFEST.json consistent"""
import json
import os
import sys

HERE = os.path.dirname(os.path.dirname(os.path.abspath(__file__)))


def add(pid, category, engine, technique, text, note, design_ref=None):
    p = os.path.join(HERE, "MANIFEST.json")
    m = json.load(open(p))
    m["checks"] = [c for c in m["checks"] if c["property_id"] != pid]
    m["checks"].append({
        "property_id": pid, "quick_cmd": f"./check {pid} --tier quick", "thorough_cmd": f"./check {pid} --tier thorough",
        "evidence_file": f"evidence/{pid}.json", "replay_cmd_template": f"./check {pid} --replay {{path}}",
        "engine": engine,
        "level_claimed": {"category": category, "text": text, "design_ref": design_ref or f"DESIGN.md §5 {pid}"},
        "level_note": note, "technique": technique})
    m["checks"].sort(key=lambda c: c["property_id"])
    m["not_applicable"] = [x for x in m.get("not_applicable", []) if x["property_id"] != pid]
    for e in m["engines"]:
        if e["name"] in engine.split("+") and pid not in e["serves_properties"]:
            e["serves_properties"].append(pid)
            e["serves_properties"].sort()
    json.dump(m, open(p, "w"), indent=1)


if __name__ == "__main__":
    add(*sys.argv[2:8])
