#!/bin/bash
for s0 in 1000 2000 3000 4000 5000 6000 7000 8000; do
  VERIF_REPO=/repo PYTHONHASHSEED=0 PYTHONPATH=/repo setsid -w timeout -s KILL 1500 /venv/bin/python corr/sim/batch.py growshrink $s0 1000 gs_$s0.json > /dev/null 2>&1 < /dev/null &
done
wait
/venv/bin/python - <<'P'
import json,collections,glob
c=collections.Counter(); n=0
for f in glob.glob('gs_*.json'):
    r=json.load(open(f))
    for run in r['runs']:
        n+=1
        for a in run['anomalies']:
            c[(a['kind'],a['sig'][:260])]+=1
            if a['kind']=='hang' and 'cq.slot' in a['sig']:
                json.dump(run, open('gs_hit.json','w'))
print(n)
for k,v in c.most_common(): print(v,k)
P
